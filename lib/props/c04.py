"""C04 - GetAST() reports exactly what the source says.   (the generator and printer are shared with C14)"""
import json, re
import vf
from vf import Case
from props.c10 import hx, spec

TYPES = {'@t': '"s"', '@u': '1', '@o': '{\n  "z": 1\n}',
         # string types whose example has escapes at its ends (used as key shortcuts by C08)
         '@q': '"say \\"hi\\""', '@qq': '"\\""', '@bs': '"back\\\\"',
         # recursive types: through an optional member, and through a type choice (used by C08's class `recursive`)
         '@r': '{\n  "next": @r, // {optional: true}\n  "id": 1\n}', '@l': '{\n  "x": 1,\n  "next": @l | @u\n}'}
RULES = {'@e': '["abc", 5, null]'}


def tspec():
    return ' '.join(['T %s J %s' % (hx(k), hx(v)) for k, v in TYPES.items()] + ['E %s %s' % (hx(k), hx(v)) for k, v in RULES.items()])

# model: node = ('L', lit, ann) | ('R', [names], ann) | ('A', ann, [node]) | ('O', ann, [(key, node)])
#        key = ('k', text with quotes) | ('s', '@name');  ann = ([(rule name, rv)], note) ;  rv = ('s', lit) | ('l', [rv]) | ('o', [(name, rv)])


def dec(s):
    return re.sub('[\ud800-\udfff]', '�', json.loads(s))


def hexd(b):
    return b.hex() or '-'


def squeeze(s):
    return re.sub(r'[ \t\r\n]+', ' ', s)


# ---------- expected dump (what the source says) ----------
def d_scal(l):
    if l.startswith('"'):
        return 's' + hexd(dec(l).encode())
    if l.startswith('@'):
        return 's' + hexd(l.encode())
    return 'l' + hexd(l.encode())


def d_rv(rv):
    if rv[0] == 's':
        return d_scal(rv[1])
    if rv[0] == 'l':
        return '[' + ','.join(d_rv(x) for x in rv[1]) + ']'
    return '{' + ';'.join(n + '=' + d_rv(x) for n, x in rv[1]) + '}'


def d_ann(ann):
    rules, note = ann if ann else ([], '')
    return '{' + ';'.join(n + '=' + d_rv(v) for n, v in rules) + '}<' + hexd(squeeze(note.strip(' \t\r\n')).encode()) + '>'


def d_node(n):
    if n[0] == 'L':
        return 'L' + d_scal(n[1]) + d_ann(n[2])
    if n[0] == 'R':
        return 'R' + hexd(' | '.join(n[1]).encode()) + d_ann(n[2])
    if n[0] == 'A':
        return 'A' + d_ann(n[1]) + '[' + ','.join(d_node(x) for x in n[2]) + ']'
    return 'O' + d_ann(n[1]) + '{' + ','.join((('k' + hexd(dec(k[1]).encode())) if k[0] == 'k' else ('s' + hexd(k[1].encode()))) + '=' + d_node(x) for k, x in n[2]) + '}'


# ---------- the implementation's AST, projected to the same dump ----------
def a_rv(r, top_name=None):
    tt = r['TokenType']
    if tt == 'array':
        return '[' + ','.join(a_rv(x) for x in (r['Items'] or [])) + ']'
    if tt == 'object':
        return '{' + ';'.join(k + '=' + a_rv(v) for k, v in (r['Properties'] or {}).items()) + '}'
    v = r['Value']
    if tt in ('string', 'reference', 'annotation', 'shortcut'):
        return 's' + hexd(v.encode('utf-8', 'surrogatepass'))
    return 'l' + hexd(v.encode())


def a_ann(a):
    rules = [(k, v) for k, v in (a.get('Rules') or {}).items() if v.get('Source') == 1]
    return '{' + ';'.join(k + '=' + a_rv(v, k) for k, v in rules) + '}<' + hexd(squeeze((a.get('Comment') or '').strip(' \t\r\n')).encode('utf-8', 'surrogatepass')) + '>'


def a_node(a):
    tt = a['TokenType']
    if tt == 'object':
        return 'O' + a_ann(a) + '{' + ','.join(('s' if c['IsKeyShortcut'] else 'k') + hexd(c['Key'].encode('utf-8', 'surrogatepass')) + '=' + a_node(c) for c in (a['Children'] or [])) + '}'
    if tt == 'array':
        return 'A' + a_ann(a) + '[' + ','.join(a_node(c) for c in (a['Children'] or [])) + ']'
    if tt == 'reference':
        return 'R' + hexd(' | '.join(x.strip() for x in a['Value'].split('|')).encode()) + a_ann(a)
    v = a['Value']
    if tt == 'string':
        return 'Ls' + hexd(v.encode('utf-8', 'surrogatepass')) + a_ann(a)
    return 'Ll' + hexd(v.encode()) + a_ann(a)


def norm_allof(d):
    """the AST reports `allOf: ["@a"]` and `allOf: "@a"` alike (a single name): compare them alike"""
    return re.sub(r'allOf=\[(s[0-9a-f-]+)\]', r'allOf=\1', d)


# ---------- printer with layout choices ----------
class Layout:
    def __init__(self, rng, nl='\n', block=0.0, quoted=0.0, comments=0.0, pad=0.0, comma_after=0.5):
        self.rng, self.nl, self.block, self.quoted, self.comments, self.pad, self.comma_after = rng, nl, block, quoted, comments, pad, comma_after

    in_block = False

    def sp(self, base=' '):
        if self.in_block and self.rng.random() < 0.25:
            return self.rng.choice([self.nl, self.nl + '  ', ' ' + self.nl, self.nl + self.nl + '\t'])    # a block annotation may run over several lines
        if self.rng.random() < self.pad:
            return self.rng.choice(['', ' ', '  ', '\t', '   '])
        return base

    def rv(self, rv):
        if rv[0] == 's':
            return rv[1]
        if rv[0] == 'l':
            return '[' + self.sp('') + (',' + self.sp(' ')).join(self.rv(x) for x in rv[1]) + self.sp('') + ']'
        return '{' + self.sp('') + (',' + self.sp(' ')).join(self.name(n) + self.sp('') + ':' + self.sp(' ') + self.rv(x) for n, x in rv[1]) + self.sp('') + '}'

    def name(self, n):
        return '"%s"' % n if self.rng.random() < self.quoted else n

    def ann(self, ann):
        """text of the annotation incl. its opening; '' when there is none"""
        if not ann or (not ann[0] and not ann[1]):
            return ''
        rules, note = ann
        body = ''
        block = self.rng.random() < self.block
        if rules:
            self.in_block = block and self.rng.random() < 0.5
            body = self.rv(('o', rules))
            self.in_block = False
        if note:
            body += (self.sp(' ') + '-' + self.sp(' ') if rules else '') + note
        if block:
            if note and self.rng.random() < 0.3:
                body = body.replace(' ', self.nl + '   ', 1) if ' ' in note and not rules else body
            return self.sp(' ') + '/*' + self.sp(' ') + body + self.sp(' ') + '*/'
        return self.sp(' ') + '//' + self.sp(' ') + body

    def comment(self):
        if self.rng.random() < self.comments:
            return self.sp(' ') + self.rng.choice(['# c', '# todo: {x}', '# "q"', '# // not an annotation', '# @t', '# ', '#', '#c'])
        return ''

    def block_comment(self, ind):
        if self.rng.random() < self.comments * 0.4:
            return ind + '###' + self.nl + ind + ' any text { [ " ' + self.nl + ind + '###' + self.nl
        return ''

    def node(self, n, ind, tail):
        """text of the node followed by `tail` (',' or ''); the annotation goes before or after the comma"""
        nl = self.nl
        if n[0] in 'LR':
            v = n[1] if n[0] == 'L' else (self.sp(' ') + '|' + self.sp(' ')).join(n[1])
            a = self.ann(n[2])
            if a and a.lstrip().startswith('/*') and self.rng.random() < 0.5:
                return v + a + self.sp('') + tail + self.comment()
            if tail and self.rng.random() > self.comma_after and a:
                # the comma at the start of the next line
                return v + a + nl + ind + tail
            return v + self.sp('') + tail + a + self.comment()
        opener, closer = ('[', ']') if n[0] == 'A' else ('{', '}')
        kids = n[2]
        a = self.ann(n[1])
        if not kids and not a and self.rng.random() < 0.5:
            return opener + self.sp('') + closer + self.sp('') + tail + self.comment()
        if not kids and a and self.rng.random() < 0.5:
            # an empty container on one line (blanks between the brackets or none), its annotation after it
            v = opener + self.rng.choice(['', '', ' ', '  ', '\t']) + closer
            if a.lstrip().startswith('/*') and self.rng.random() < 0.5:
                return v + a + self.sp('') + tail + self.comment()
            if tail and self.rng.random() > self.comma_after:
                return v + a + nl + ind + tail
            return v + self.sp('') + tail + a + self.comment()
        head = opener + a + self.comment()
        ind2 = ind + self.rng.choice(['  ', '    ', '\t']) if self.pad else ind + '  '
        pieces = []
        for i, k in enumerate(kids):
            t = ',' if i + 1 < len(kids) else ''
            if n[0] == 'A':
                pieces.append(self.node(k, ind2, t))
            else:
                key, val = k
                kt = key[1]
                pieces.append(kt + self.sp('') + ':' + self.sp(' ') + self.node(val, ind2, t))
        # a ### block comment ### may stand between two values of one line (no annotation may follow on that line: rule 804)
        plain = lambda x: '//' not in x and '/*' not in x and '#' not in x and nl not in x
        out = head
        same_line = False
        if pieces and not a and '#' not in head and plain(pieces[0]) and self.rng.random() < self.comments * 0.7:
            out += ' ### after the bracket ### '
            same_line = True
        else:
            out += nl
        for i, piece in enumerate(pieces):
            if not same_line:
                out += self.block_comment(ind2) + ind2
            out += piece
            same_line = (i + 1 < len(pieces) and plain(piece) and plain(pieces[i + 1]) and self.rng.random() < self.comments * 0.7)
            if same_line:
                out += self.rng.choice([' ### remark ### ', ' ###x###', ' ### a' + nl + ind2 + ' b ### '])
            else:
                out += nl
                if self.rng.random() < self.pad * 0.3:
                    out += nl
        return out + ind + closer + self.sp('') + tail + self.comment()

    def text(self, n):
        lead = self.rng.choice(['', self.nl, ' ' + self.nl, self.nl + self.nl]) if self.pad else ''
        trail = self.rng.choice(['', self.nl, ' ', self.nl + ' ' + self.nl]) if self.pad else ''
        return lead + self.node(n, '', '') + trail


# ---------- generator of valid schema models ----------
NOTES = ['', '', 'a note', 'note with - dash', 'the id, see {doc}', 'two  spaces', 'q"uote', 'ünï', 'x',
         # white space that is not a schema blank belongs to the note: no-break space, vertical tab, form feed, em space, line separator
         'price in €\u00a0', '\u00a0lead', 'tab\x0b', '\x0c\x0c', '\u2003em\u2003', 'ls\u2028']


def gen_model(rng, depth=0, prop=False):
    def note():
        return rng.choice(NOTES)

    def maybe(rules, p=0.6):
        rs = rules if rng.random() < p else []
        if prop and rng.random() < 0.25:
            rs = rs + [('optional', ('s', rng.choice(['true', 'false'])))]
        nt = note() if rng.random() < 0.5 else ''
        return (rs, nt)
    r = rng.random()
    if depth >= 3 or r < 0.45:
        k = rng.random()
        if k < 0.35:
            v = rng.choice(['0', '5', '-3', '12345678901234567890', '42'])
            rules = []
            c = rng.random()
            if c < 0.3:
                rules = [('min', ('s', rng.choice(['-100', '-100.0', '-12345678901234567890', '-3.50', '-100.500', '-4.000'])))]
                if rng.random() < 0.5:
                    rules.append(('max', ('s', rng.choice(['12345678901234567890', '12345678901234567891', '99999999999999999999.5', '12345678901234567890.0', '99999999999999999999.50', '12345678901234567890.500']))))
                if rng.random() < 0.3:
                    rules.insert(1, ('exclusiveMinimum', ('s', 'true')))
            elif c < 0.45:
                rules = [('type', ('s', '"integer"'))] + ([('nullable', ('s', 'true'))] if rng.random() < 0.5 else [])
            elif c < 0.6:
                rules = [('enum', ('l', [('s', v), ('s', '"x"'), ('s', 'null')][:rng.randint(1, 3)]))]
            elif c < 0.75:
                alts = [('o', [('type', ('s', '"integer"')), ('min', ('s', '-100'))]), ('s', '"string"'), ('o', [('type', ('s', '"@t"'))])][:rng.randint(2, 3)]
                if rng.random() < 0.4:      # a string format as a rule-set (the conversions rename some of them - in their own copy)
                    alts.insert(rng.randrange(len(alts) + 1), ('o', [('type', ('s', rng.choice(['"datetime"', '"email"', '"date"', '"uri"', '"uuid"'])))]))
                if rng.random() < 0.4:      # an enum inside a rule-set: its name may be quoted and padded like every rule name
                    alts.insert(rng.randrange(len(alts) + 1), ('o', [('type', ('s', '"enum"')), ('enum', ('l', [('s', v), ('s', '"x"')]))]))
                if rng.random() < 0.3:      # the same user type more than once, as a name and as a rule-set
                    alts.insert(rng.randrange(len(alts) + 1), ('s', '"@t"'))
                    alts.append(rng.choice([('s', '"@t"'), ('o', [('type', ('s', '"@t"'))])]))
                rules = [('or', ('l', alts))]
            elif c < 0.85:
                rules = [('const', ('s', rng.choice(['true', 'false'])))]
            elif c < 0.93:
                return ('L', '5', maybe([('enum', ('s', '@e'))], 1.0))
            return ('L', v, maybe(rules))
        if k < 0.5:
            v = rng.choice(['1.5', '-0.25', '3.140'])
            rules = rng.choice([[], [('precision', ('s', '3'))], [('type', ('s', '"float"')), ('min', ('s', '-1'))], [('type', ('s', '"decimal"')), ('precision', ('s', '4'))],
                                [('precision', ('s', '9223372036854775808'))], [('precision', ('s', '18446744073709551615'))], [('precision', ('s', '9223372036854775807'))]])
            return ('L', v, maybe(rules))
        if k < 0.8:
            v = rng.choice(['"abc"', '"a b"', '"\\u0041bc"', '"é//x"', '"#no comment"', '"/* no */"', '"x@y.org"', '"\\u0001x"', '"a\\u007fb\\u000b"', '"\\udb80\\udc00"', '"\\\\"'])
            rules = rng.choice([[], [('minLength', ('s', '1'))], [('minLength', ('s', '0')), ('maxLength', ('s', '18446744073709551615'))], [('minLength', ('s', '1')), ('maxLength', ('s', '9223372036854775808'))], [('type', ('s', '"string"'))],
                                [('regex', ('s', '"."'))], [('enum', ('l', [('s', v), ('s', '"other"')]))], [('nullable', ('s', 'false'))]])
            if rng.random() < 0.1:
                return ('L', '"abc"', maybe([('enum', ('s', '@e'))], 1.0))
            if v == '"x@y.org"' and rng.random() < 0.5:
                rules = [('type', ('s', '"email"'))]
            return ('L', v, maybe(rules))
        if k < 0.9:
            return ('L', rng.choice(['true', 'false', 'null']), maybe([]))
        names = rng.choice([['@t'], ['@u'], ['@t', '@u'], ['@o'], ['@u', '@o', '@t'], ['@t', '@u', '@t'], ['@u', '@u']])   # a name may stand twice
        return ('R', names, maybe([], 0))
    if r < 0.7:
        n = rng.randint(0, 3)
        items = [gen_model(rng, depth + 1) for _ in range(n)]
        rules = rng.choice([[], [], [('minItems', ('s', '0'))], [('minItems', ('s', '0')), ('maxItems', ('s', '10'))], [('maxItems', ('s', '18446744073709551615'))], [('minItems', ('s', '1')), ('maxItems', ('s', '9223372036854775808'))]]) if items else []
        return ('A', maybe(rules), items)
    n = rng.randint(0, 3)
    keys = rng.sample(['"a"', '"b"', '"a b"', '"\\u0063"', '"k-1"', '"é"', '"#"', '"//"'], n)
    ms = []
    used_short = False
    for k in keys:
        if not used_short and rng.random() < 0.15:
            ms.append((('s', '@t'), gen_model(rng, depth + 1, True)))
            used_short = True
        else:
            ms.append((('k', k), gen_model(rng, depth + 1, True)))
    rules = rng.choice([[], [], [('additionalProperties', ('s', 'true'))], [('additionalProperties', ('s', '"string"'))], [('allOf', ('s', '"@o"'))], [('allOf', ('l', [('s', '"@o"')]))],
                        [('additionalProperties', ('s', '"@u"')), ('nullable', ('s', 'true'))]])
    return ('O', maybe(rules), ms)


def layouts(rng):
    """a plain layout first, then varied ones"""
    out = [Layout(rng)]
    for nl in ['\n', '\r\n', '\r']:
        out.append(Layout(rng, nl=nl, block=rng.choice([0, 0.5, 1]), quoted=rng.choice([0, 0.5, 1]), comments=rng.choice([0, 0.5]), pad=rng.choice([0, 0.7]), comma_after=rng.choice([0, 0.5, 1])))
    return out


class Prop:
    id = 'C04'
    level = 'proof'
    theorems_file = 'Properties/C04.v'
    exhaustive_note = ''

    def cases(self, tier, rng):
        cs = []
        self.models = {}
        n = 1500 if tier == 'quick' else 25000
        for i in range(n):
            m = gen_model(rng)
            for j, lay in enumerate(layouts(rng)):
                line = 'stext ' + hx(lay.text(m))
                self.models[line] = m
                cs.append(Case(line, 'layout-%d' % j, meta='m%d' % i))
        # counting rules at the edge of the machine integers: whatever is accepted must be reported as written
        self.may_reject = set()
        edges = sorted(set([2 ** k + d for k in (31, 32, 63, 64) for d in range(-2, 13)] + [10 ** 19, 10 ** 19 + 7, 2 ** 64 * 10, 2 ** 64 * 10 + 3, 10 ** 20 - 1, 2 ** 65 + 1, 2 ** 128 + 2]))
        subjects = [('minLength', lambda r: ('L', '"abc"', (r, ''))), ('maxLength', lambda r: ('L', '"abc"', (r, 'n'))), ('precision', lambda r: ('L', '1.5', (r, ''))),
                    ('minItems', lambda r: ('A', (r, ''), [('L', '1', ([], '')), ('L', '2', ([], ''))])), ('maxItems', lambda r: ('A', (r, ''), [('L', '1', ([], '')), ('L', '2', ([], ''))]))]
        for name, mk in subjects:
            for v in edges:
                for wrap in (False, True):
                    rules = [(name, ('s', str(v)))]
                    if wrap and name in ('minLength', 'maxLength'):
                        rules = [('or', ('l', [('o', [('type', ('s', '"string"'))] + rules), ('s', '"integer"')]))]
                    elif wrap:
                        continue
                    m = mk(rules)
                    for j, lay in enumerate(layouts(rng)[:2]):
                        line = 'stext ' + hx(lay.text(m))
                        self.models[line] = m
                        self.may_reject.add(line)
                        cs.append(Case(line, 'integer-edge'))
        # `or` rules over every built-in and user type as alternatives (texts of C08's class or-forms): what is accepted is
        # compared with the parser model; most of them are refused for their meaning, which is not C04's business
        from props import c08
        self.free = set()
        for text in c08.or_forms(rng, 300 if tier == 'quick' else 5000):
            line = 'stext ' + hx(text)
            if line not in self.models:
                self.free.add(line)
                cs.append(Case(line, 'or-forms'))
        return cs

    may_reject = set()
    free = set()

    def model_lines(self, lines, impl):
        # the parser model has no machine integers: it is not asked about rule values at their edge
        return [None if (l in self.may_reject or (l in self.free and o.startswith('rej'))) else l for l, o in zip(lines, impl)]

    def run_impl(self, lines):
        texts = [l.split(' ')[1] for l in lines]
        res = vf.run_impl(['proj ast %s %s' % (t, tspec()) for t in texts])
        late = vf.run_impl(['proj astlate %s %s' % (t, tspec()) for t in texts])
        out = []
        for r, r2 in zip(res, late):
            if r2 != r and re.match(r'^[0-9a-f]+$', r):
                out.append('LATE ' + r2[:200])
            elif re.match(r'^[0-9a-f]+$', r):
                try:
                    out.append('ok ast=' + norm_allof(a_node(json.loads(bytes.fromhex(r).decode('utf-8', 'surrogatepass')))))
                except Exception as e:
                    out.append('unreadable ' + r[:40])
            else:
                out.append('rej ' + r.split('~')[0])
        return out

    def project(self, out):
        return 'rej' if out.startswith('rej') else out

    def project_model(self, out):
        return norm_allof(out)

    def nontrivial(self, c):
        return True

    def oracle(self, case, out):
        if 'panic' in out or 'TOOLCRASH' in out:
            return 'crash: ' + out[:160]
        if out.startswith('LATE '):
            return 'GetAST() asked after Check/Example/OpenAPI/UsedUserTypes reports something else than asked first: ' + out[5:125]
        m = self.models.get(case.line)
        if m is None:
            return None
        want = 'ok ast=' + norm_allof(d_node(m))
        if out.startswith('rej'):
            if case.line in self.may_reject:
                return None      # the example may break the rule, or the value may not fit: refusing is fine, misreporting is not
            return 'TIE:a schema the parser model accepts is refused by the library (C04 speaks about accepted schemas only): ' + out[:60]
        if out != want:
            return 'GetAST() differs from the source: %s vs %s' % (out[:160], want[:160])
        return None

    def describe(self):
        return dict(
            rule='schema models (scalars of every kind with rule sets of their type incl. 20-digit bounds, enum and or lists with rule-sets, const, nullable, '
                 'optional; references and choices; arrays and objects with their rules, key shortcuts, notes with dashes, braces, quotes and non-ASCII) printed '
                 'under 4 layouts each: LF/CRLF/CR, inline or block annotations, quoted or bare rule names, comma before or after the annotation, # and ### '
                 'comments, padding and blank lines',
            trusted=['Coq 8.16.1 kernel', 'model coq/Model/SchemaText.v (lexer + parser) tied by correspondence on the AST dump',
                     'printer and the expected dump in lib/props/c04.py', 'extraction, driver, harness'],
            assumptions=['annotations are placed after the value they describe (before or after its comma) or after the bracket that opens a container; other placements '
                         'are not generated', 'allOf with one name is reported as a single name by GetAST(): compared as such', 'generated rules (Source != manual) are not compared'],
            explanation='lexer/parser model with theorems; correspondence on printed models; expected dump from the model itself as oracle')
