"""C02 - no input can crash, hang or panic any public entry point."""
import itertools, os, random, re, resource, subprocess, time
import vf
from vf import Case
import samples
from props.c10 import hx, spec

IMPL = os.path.join(vf.HARNESS, 'bin', 'implrun')
MEM_LIMIT = 3 * 1024 * 1024 * 1024     # address space of the harness process (bytes)
BATCH = 400
BATCH_TIMEOUT = 180
CASE_TIMEOUT = 60


def limit():
    resource.setrlimit(resource.RLIMIT_AS, (MEM_LIMIT, MEM_LIMIT))


def run_batch(lines, timeout):
    try:
        p = subprocess.run([IMPL], input='\n'.join(lines) + '\n', capture_output=True, text=True, timeout=timeout, preexec_fn=limit)
    except subprocess.TimeoutExpired:
        return None, 'TIMEOUT'
    out = p.stdout.split('\n')
    if out and out[-1] == '':
        out.pop()
    if p.returncode != 0 or len(out) != len(lines):
        first = (p.stderr or '').strip().split('\n')[0][:160]
        return None, 'DIED rc=%s %s' % (p.returncode, first)
    return out, None


def run_guarded(lines):
    """every line gets an answer: the handler's, or DIED / TIMEOUT when the process does not survive it"""
    res = [None] * len(lines)
    slow = []
    for i in range(0, len(lines), BATCH):
        chunk = lines[i:i + BATCH]
        t0 = time.time()
        out, err = run_batch(chunk, BATCH_TIMEOUT)
        dt = time.time() - t0
        if out is not None:
            res[i:i + len(chunk)] = out
            if dt > 30:
                slow.append((i, len(chunk), dt))
            continue
        # find the culprit(s): halve until single lines
        stack = [(i, len(chunk))]
        while stack:
            a, n = stack.pop()
            sub = lines[a:a + n]
            o, e = run_batch(sub, CASE_TIMEOUT if n == 1 else BATCH_TIMEOUT)
            if o is not None:
                res[a:a + n] = o
            elif n == 1:
                res[a] = e
            else:
                h = n // 2
                stack.append((a, h)); stack.append((a + h, n - h))
    return res, slow


def mutations(b, rng, budget):
    out = set()
    n = len(b)
    for k in range(n + 1):
        out.add(b[:k])
    for k in range(n):
        out.add(b[:k] + b[k + 1:])
    specials = [b'"', b'\\', b'{', b'}', b'[', b']', b',', b':', b'/', b'*', b'#', b'@', b'|', b'-', b'.', b'e', b'\n', b'\r', b' ', b'\x00', b'\xff', b'\xc3', b'0', b'9']
    for _ in range(budget):
        k = rng.randrange(n + 1)
        s = rng.choice(specials)
        out.add(b[:k] + s + b[k:])
        if n:
            j = rng.randrange(n)
            out.add(b[:j] + s + b[j + 1:])
            j2 = rng.randrange(n)
            lo, hi = min(j, j2), max(j, j2)
            out.add(b[:lo] + b[hi:])
            out.add(b[:lo] + b[lo:hi] * 2 + b[hi:])
    return out


TYPE_BODIES = ['1', '"s"', '@a', '@b', '@a | @b', '@b | @c', '{\n  @a: 1\n}', '{\n  @b: "x"\n}', '{ // {allOf: "@a"}\n}', '{ // {allOf: ["@b", "@c"]}\n}',
               '1 // {type: "@a"}', '1 // {or: ["@a", "@b"]}', '{ // {additionalProperties: "@a"}\n}', '[\n  @a\n]', '{\n  "k": @a // {optional: true}\n}',
               '"x" // {enum: @e}', '1 // {or: [{type: "@a", nullable: true}, {type: "@b"}]}', '@c',
               # several mandatory members that refer to the same or to different types (cycles met more than once on one walk)
               '{\n  "x": @a,\n  "y": @a\n}', '{\n  "x": @b,\n  "y": @b\n}', '{\n  "x": @b,\n  "y": @c,\n  "z": @b\n}', '{\n  "x": @c,\n  "y": [\n    @a\n  ],\n  "z": @c\n}']


class Prop:
    id = 'C02'
    level = 'other'
    theorems_file = 'Properties/C02.v'
    uses_model = False
    exhaustive_note = ''

    def cases(self, tier, rng):
        cs = []
        def add(line, klass):
            cs.append(Case(line, klass))
        big = tier != 'quick'
        budget = 40 if big else 6
        # 1. mutations of valid inputs of every kind
        schemas = list(samples.SCHEMAS) + ['@t | @u // n', '{\n  @t: 1, // {optional: true}\n  "k": [ // {minItems: 0}\n    1.5 // {precision: 2}\n  ]\n}',
                                           '1 /* {or: [{type: "integer", min: 0}, "@t"]}\n - note */', '{ // {allOf: ["@o"], additionalProperties: "string"}\n}\n# c\n### b ###']
        for s in schemas:
            for m in mutations(s.encode(), rng, budget):
                add('proj all %s T 4074 J 227322 T 4075 J 31 T 406f J 7b7d' % hx(m), 'schema-mutation')
        for e in samples.ENUMS + ['[1, "a" // c\n, /* d */ null]', '[\n  1.5,\n  -0\n] // tail']:
            for m in mutations(e.encode(), rng, budget):
                add('enum ' + hx(m), 'enum-mutation')
                add('enumeq %s %s' % (hx(m), hx(b'1')), 'enum-as-rule')
        for r in samples.REGEXES + ['/a\\/b/', '/[a-z]{2,3}(x|y)*/ tail']:
            for m in mutations(r.encode(), rng, budget):
                add('regex ' + hx(m), 'regex-mutation')
        for j in samples.JSONS + ['{"a": [1, -0.5e+10, "x\\u00e9", null, true], "b": {}}']:
            for m in mutations(j.encode(), rng, budget):
                for a in '01':
                    add('json %s %s' % (a, hx(m)), 'json-mutation')
        nums = ['0', '-0', '1.5', '-12.50e-1', '1e5', '1E+5', '0.000', '123456789012345678901234567890', '1e4000000000', '1e-4000000000', '1e99999999999999999999',
                '1e9223372036854775807', '-1e-9223372036854775808', '1e16777216', '1e16777217', '0.' + '0' * 50 + '1', '9' * 400, '1e' + '9' * 400]
        for v in nums:
            for m in mutations(v.encode(), rng, budget):
                add('num N ' + hx(m), 'number-mutation')
                add('guess G ' + hx(m), 'guess')
        # 1b. bytes that are not UTF-8 inside strings (every run length up to 13, alone and after an escape): the decoders replace them
        for n in range(1, 14):
            for lead in (b'', b'\\n', b'a', b'\\u0041'):
                for bad in (b'\xff', b'\x80', b'\xc3', b'\xed\xa0'):
                    st = b'"' + lead + bad * n + b'"'
                    add('enum ' + hx(b'[' + st + b']'), 'invalid-utf8')
                    add('enumeq %s %s' % (hx(b'[' + st + b', 1]'), hx(b'1')), 'invalid-utf8')
                    add('proj all ' + hx(st), 'invalid-utf8')
                    add('proj all ' + hx(b'{' + st + b': 1}'), 'invalid-utf8')
                    add('proj all ' + hx(b'1 // {enum: [1, ' + st + b']}'), 'invalid-utf8')
                    add('json 0 ' + hx(b'[' + st + b']'), 'invalid-utf8')
                    add('guess G ' + hx(st), 'invalid-utf8')
        # 1c. every rule with a value of every JSON kind, on examples of every kind, alone and inside a rule-set of `or`
        for name in ['min', 'max', 'minLength', 'maxLength', 'minItems', 'maxItems', 'precision', 'regex', 'type', 'enum', 'const', 'nullable', 'optional',
                     'additionalProperties', 'or', 'allOf', 'exclusiveMinimum', 'exclusiveMaximum', 'unknownRule']:
            for val in ['5', '"x"', 'true', 'null', '1.5', '[1]', '{}', '-1', '"@t"', '[]', '""', '[""]', '[null]', '{"a": 1}', '"@"', '"#"', '1e999', '99999999999999999999']:
                for ex in ['1', '"a"', '[\n  1\n]', '{}', 'null', '@t']:
                    text = (ex[0] + ' // {%s: %s}' % (name, val) + ex[1:]) if ex[0] == '[' else '%s // {%s: %s}' % (ex, name, val)
                    add('proj all %s T 4074 J 227322' % hx(text), 'rule-value-kind')
                add('proj all %s T 4074 J 227322' % hx('1 // {or: [{type: "integer", %s: %s}, "string"]}' % (name, val)), 'rule-value-kind')
                add('proj all %s T 4074 J 227322' % hx('{\n  "k": "a" // {or: [{%s: %s}, {type: "string", %s: %s}]}\n}' % (name, val, name, val)), 'rule-value-kind')
        # 2. pathological sizes
        N = 200000 if big else 20000
        D = 20000 if big else 4000       # nesting depth: Example() and the OpenAPI conversion are quadratic in it (observed, recorded in DESIGN)
        for t in ['[' * N, '{"a":' * N, '[' * D + ']' * D, '{"a":' * D + '1' + '}' * D, '"' + 'a' * (10 * N) + '"', '1' * N, '1.' + '0' * N, '1e' + '1' * 30, '@a' + ' | @a' * (N // 10), '1 // {' + ', '.join('min: 0' for _ in range(N // 100)) + '}',
                  '[' + ','.join(['1'] * N) + ']', '{' + ','.join('"k%d":1' % i for i in range(N // 10)) + '}', '#' * N, '/' * N, '1 ' + '// x\n' * (N // 10), '### ' + 'x' * N, '1 /* ' + 'x' * N,
                  '{\n' + ''.join('  "k%d": 1, // {min: 0} - n\n' % i for i in range(N // 50)) + '  "z": 1\n}']:
            add('proj all ' + hx(t), 'schema-size')
            add('json 0 ' + hx(t), 'json-size')
            add('enum ' + hx(t), 'enum-size')
            add('regex ' + hx(t), 'regex-size')
            add('num N ' + hx(t), 'number-size')
        add('enum ' + hx('[' + ','.join(str(i) for i in range(N)) + ']'), 'enum-size')
        add('regex ' + hx('/' + '(a|b)*' * (N // 1000) + '/'), 'regex-size')
        add('regex ' + hx('/' + '(' * 2000 + 'a' + ')' * 2000 + '/'), 'regex-size')
        # expressions that compile but match nothing (a class without members), alone and as a registered type
        for ec in ['[^\\s\\S]', '[^\\d\\D]x', 'a[^\\w\\W]', '[^\\x00-\\x{10FFFF}]', '([^\\S\\s])?', 'a|[^\\D\\d]']:
            add('regex ' + hx('/' + ec + '/'), 'regex-matching-nothing')
            for r in ['@r', '{\n  "k": @r\n}', '{\n  @r: 1\n}', '"x" // {type: "@r"}']:
                add('proj all %s' % spec(r, {'@r': '/' + ec + '/'}, {}), 'regex-matching-nothing')
        # 3. every configuration of three types over a pool of bodies, with roots that use them in every position
        roots = ['{\n  "k": @a\n}', '{\n  "k": @a,\n  "l": @b\n}', '@a', '@a | @b', '{\n  @a: 1\n}', '{ // {allOf: "@a"}\n}', '1 // {type: "@a"}', '1 // {or: ["@a", "@c"]}', '{ // {additionalProperties: "@a"}\n}', '[\n  @a, @c\n]']
        combos = list(itertools.product(TYPE_BODIES, repeat=3))
        if not big:
            combos = rng.sample(combos, 700)
        for (a, b, c) in combos:
            r = rng.choice(roots)
            # registered on the root / on every type as well / as a chain / one shared object per type
            for style in ('', ' all', rng.choice([' nest', ' share', ' all share'])):
                add('proj all %s%s' % (spec(r, {'@a': a, '@b': b, '@c': c}, {'@e': '["x", 1]'}), style), 'type-configuration')
        multi = [b for b in TYPE_BODIES if b.count('@') >= 2 and b.startswith('{\n  "x"')]
        for (a, b, c) in itertools.product(multi, repeat=3):
            for r in roots[:3]:
                add('proj all %s%s' % (spec(r, {'@a': a, '@b': b, '@c': c}, {'@e': '["x", 1]'}), rng.choice(['', ' all', ' nest', ' all share'])),
                    'type-configuration-multi-link')
        self.exhaustive_note = ('every prefix and every single-byte deletion of %d schemas, enums, regexes, JSON documents and numbers; %s configurations of three user types over %d bodies'
                                % (len(schemas) + len(samples.ENUMS) + len(samples.REGEXES) + len(samples.JSONS) + len(nums), 'all %d' % len(combos) if big else '700 random', len(TYPE_BODIES)))
        return cs

    def run_impl(self, lines):
        t0 = time.time()
        res, slow = run_guarded(lines)
        self.wall = time.time() - t0
        self.slow = slow
        return res

    def project(self, out):
        return out

    def nontrivial(self, c):
        return True

    def oracle(self, case, out):
        if out is None:
            return 'no answer'
        if out.startswith('DIED'):
            return 'the process does not survive this input: ' + out[:200]
        if out.startswith('TIMEOUT'):
            return 'no answer within %d s' % CASE_TIMEOUT
        if re.search(r'panic[: ]', out) or 'TOOLCRASH' in out:
            return 'a Go panic escapes a public entry point: ' + re.search(r'panic[: ]\S*', out).group(0)[:120]
        return None

    wall = 0
    slow = []

    def more_evidence(self):
        return dict(harness_wall_s=round(self.wall, 1), slow_batches=[dict(first_case=a, cases=n, seconds=round(dt, 1)) for a, n, dt in self.slow],
                    memory_limit_bytes=MEM_LIMIT, per_case_timeout_s=CASE_TIMEOUT)

    def describe(self):
        return dict(
            rule='every public operation (Len, Check, Example, GetAST, UsedUserTypes, OpenAPI conversion, AddType/AddRule; enum Check/Len/Values; regex schema; JSON document '
                 'Len/Check/NextLexeme with and without trailing characters; NewNumber; GuessSchemaType) on: every prefix, every single-byte deletion and random '
                 'special-byte insertions/replacements/duplications of valid inputs of each kind; pathological sizes (deep nesting, long strings, 20000-200000 items, '
                 'huge exponents); configurations of three user types over 18 bodies (self-naming choices, key shortcuts, allOf, or, additionalProperties, enum rules) '
                 'in both registration styles. The harness process runs under a 3 GB address-space limit; a batch that does not come back is bisected to the input',
            trusted=['Coq 8.16.1 kernel for the totality theorems of the models (JSON document checker, number scanner, enum parser, regex delimiter scan, diagnostics rendering)',
                     'the models are tied to the code by the correspondences of C12, C13, C17, C18, C16', 'harness with recover() around every library call; process supervision in lib/props/c02.py'],
            assumptions=['stack depth, memory and time are properties of the runtime: the models cannot exhibit them; they are observed on the inputs above only',
                         'inputs above 10 MB are not generated'],
            explanation='totality theorems on the models + supervised execution of every entry point on mutated, oversized and self-referential inputs')
