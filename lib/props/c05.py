"""C05 - type references resolve exactly; UsedUserTypes() lists exactly the names used."""
import itertools, re
from vf import Case
from props.c10 import hx

# node = ('L', kind, ty, alts) | ('M', names) | ('A', items) | ('O', allof, ap, props)
#   kind: 'int' | 'str' (the example);  ty: name | None;  alts: [('N', t) | ('S', t | None)]
#   props: [(shortcut name | None, plain key text, node)]


def tname(i):
    return '@t%d' % i


def tok(n):
    k = n[0]
    if k == 'L':
        out = ['L', '-' if n[2] is None else str(n[2]), str(len(n[3]))]
        for a in n[3]:
            out += [a[0], '-' if a[1] is None else str(a[1])]
        return out
    if k == 'M':
        return ['M', str(len(n[1]))] + [str(x) for x in n[1]]
    if k == 'A':
        out = ['A', str(len(n[1]))]
        for c in n[1]:
            out += tok(c)
        return out
    out = ['O', str(len(n[1]))] + [str(x) for x in n[1]] + ['-' if n[2] is None else str(n[2]), str(len(n[3]))]
    for sk, pk, v in n[3]:
        out += ['-' if sk is None else str(sk)] + tok(v)
    return out


def text(n, indent, comma=''):
    pad = '  ' * indent
    k = n[0]
    if k == 'L':
        ex = {'int': '1', 'str': '"s"', 'arr': '[]', 'obj': '{}'}[n[1]]      # arr/obj: an empty container that carries an `or` rule
        rules = []
        if n[2] is not None:
            rules.append('type: "%s"' % tname(n[2]))
        if n[3]:
            alts = []
            for a in n[3]:
                if a[0] == 'N':
                    alts.append('"%s"' % tname(a[1]))
                elif a[1] is None:
                    alts.append({'int': '{type: "integer", min: 0}', 'str': '{type: "string", minLength: 1}', 'arr': '"array"', 'obj': '"object"'}[n[1]])
                else:
                    alts.append('{type: "%s", nullable: true}' % tname(a[1]))
            rules.append('or: [%s]' % ', '.join(alts))
        return ex + comma + ((' // {%s}' % ', '.join(rules)) if rules else '')
    if k == 'M':
        return ' | '.join(tname(x) for x in n[1]) + comma
    if k == 'A':
        items = [pad + '  ' + text(c, indent + 1, ',' if i + 1 < len(n[1]) else '') for i, c in enumerate(n[1])]
        return '[\n' + ''.join(x + '\n' for x in items) + pad + ']' + comma
    rules = []
    if n[1]:
        rules.append('allOf: ' + ('"%s"' % tname(n[1][0]) if len(n[1]) == 1 else '[' + ', '.join('"%s"' % tname(x) for x in n[1]) + ']'))
    if n[2] is not None:
        rules.append('additionalProperties: "%s"' % tname(n[2]))
    ann = (' // {%s}' % ', '.join(rules)) if rules else ''
    props = []
    for i, (sk, pk, v) in enumerate(n[3]):
        key = tname(sk) if sk is not None else '"%s"' % pk
        props.append(pad + '  ' + key + ': ' + text(v, indent + 1, ',' if i + 1 < len(n[3]) else ''))
    return '{' + ann + '\n' + ''.join(x + '\n' for x in props) + pad + '}' + comma


# ---- oracle (independent of the Coq model): reference positions, reachability
def refs(n):
    k = n[0]
    if k == 'L':
        out = [a[1] for a in n[3] if a[1] is not None]
        if n[2] is not None:
            out.append(n[2])
        return out
    if k == 'M':
        return list(n[1])
    if k == 'A':
        return [x for c in n[1] for x in refs(c)]
    out = list(n[1]) + ([n[2]] if n[2] is not None else [])
    for sk, pk, v in n[3]:
        if sk is not None:
            out.append(sk)
        out += refs(v)
    return out


def reach_missing(root, reg):
    """unregistered names reachable from the root through registered types"""
    seen, todo, miss = set(), list(refs(root)), set()
    while todo:
        t = todo.pop()
        if t in seen:
            continue
        seen.add(t)
        if t in reg:
            todo += refs(reg[t])
        else:
            miss.add(t)
    return miss


def additional_in_or_set(case, reason):
    """F05: additionalProperties written inside a rule-set alternative of an `or` rule"""
    try:
        text = bytes.fromhex(case.line.split(' ')[2]).decode()
    except Exception:
        return False
    return bool(re.search(r'or: \[[^\]]*\{[^}]*additionalProperties', text))


class Prop:
    id = 'C05'
    known_matchers = {'additional_in_or_set': additional_in_or_set}
    level = 'proof'
    theorems_file = 'Properties/C05.v'
    exhaustive_note = ''

    def mk(self, root, reg, extras=(), style='root'):
        """reg: dict name -> node of the registered types; extras: unused valid types (not part of the model input)"""
        g = tok(root)
        for i in sorted(reg):
            g += [';', str(i)] + tok(reg[i])
        allreg = dict(reg)
        for i, n in extras:
            g += [';', str(i)] + tok(n)
            allreg[i] = n
        p = [hx(text(root, 0))]
        for i in sorted(allreg):
            p += ['T', hx(tname(i)), 'J', hx(text(allreg[i], 0))]
        if style == 'all':
            p.append('all')
        return 'refs ' + ' '.join(g) + ' || ' + ' '.join(p)

    # -- generator of valid projects: types 1..n, references only to larger names (no cycles), kinds respected
    def gen_project(self_, rng, n):
        kinds = {}
        for i in range(1, n + 1):
            kinds[i] = rng.choice(['int', 'str', 'obj', 'obj', 'arr', 'mix'])
        kinds[n] = rng.choice(['int', 'str', 'obj'])           # the largest name has nothing to refer to
        cnt = [0]

        def names_after(i, pred=lambda k: True):
            return [j for j in range(i + 1, n + 1) if pred(kinds[j])]

        def lit(i, kind):
            same = names_after(i, lambda k: k == kind)
            anyt = names_after(i)
            r = rng.random()
            if r < 0.3 or not anyt:
                return ('L', kind, None, [])
            if r < 0.55 and same:
                return ('L', kind, rng.choice(same), [])
            # or: the first alternative always fits the example
            alts = []
            if same and rng.random() < 0.5:
                alts.append(('N', rng.choice(same)))
            else:
                alts.append(('S', None))
            for _ in range(rng.randint(1, 2)):
                c = rng.random()
                t = rng.choice(anyt)
                alts.append(('N', t) if c < 0.5 else ('S', t))
            return ('L', kind, None, alts)

        def value(i, depth):
            anyt = names_after(i)
            r = rng.random()
            if anyt and r < 0.35:
                return ('M', rng.sample(anyt, 1 if rng.random() < 0.6 else min(2, len(anyt))))
            if r < 0.6 or depth >= 2:
                return lit(i, rng.choice(['int', 'str']))
            if r < 0.8:
                return ('A', [value(i, depth + 1) for _ in range(rng.randint(0, 2))])
            return obj(i, depth + 1, False)

        used_pk = set()

        def obj(i, depth, top):
            objs = [j for j in names_after(i, lambda k: k == 'obj') if j % 2 == 0]
            strs = names_after(i, lambda k: k == 'str')
            anyt = names_after(i)
            allof = rng.sample(objs, min(len(objs), rng.choice([0, 0, 1, 1, 2]))) if objs else []
            if top and i % 2 == 0 and i != 0:
                allof = []          # a type others inherit from does not inherit itself (no diamonds: C07)
            # additionalProperties only where no inheritance is involved (a second rule would have to agree: C07)
            ap = rng.choice(anyt) if anyt and not allof and not (top and i % 2 == 0) and rng.random() < 0.3 else None
            props = []
            used_sk = set()
            for _ in range(rng.randint(0, 3)):
                cnt[0] += 1
                sk = None
                if strs and rng.random() < 0.25 and not (top and i % 2 == 0 and i != 0):
                    sk = rng.choice(strs)
                    if sk in used_sk:
                        sk = None
                    else:
                        used_sk.add(sk)
                # a plain key may look like a type name (it is quoted in the text): `"@t3": ...` is a property, not a shortcut
                pk = ('@t%d' % rng.randint(1, 9)) if rng.random() < 0.15 else ('@k%d' % cnt[0]) if rng.random() < 0.05 else 'k%d' % cnt[0]
                if pk in used_pk:           # once per project: an heir must not meet its own key again in what it inherits (402, C07's subject)
                    pk = 'k%d' % cnt[0]
                used_pk.add(pk)
                props.append((sk, pk, value(i, depth)))
            return ('O', allof, ap, props)

        def body(i):
            k = kinds[i]
            if k in ('int', 'str'):
                return lit(i, k)
            if k == 'obj':
                return obj(i, 0, True)
            if k == 'arr':
                return ('A', [value(i, 1) for _ in range(rng.randint(0, 3))])
            anyt = names_after(i)
            return ('M', rng.sample(anyt, min(len(anyt), rng.randint(1, 2)))) if anyt else ('L', 'int', None, [])
        kinds[0] = 'obj'
        root = obj(0, 0, True) if rng.random() < 0.8 else value(0, 0)
        types = {i: body(i) for i in range(1, n + 1)}
        return root, types

    def cases(self, tier, rng):
        cs = []
        L = ('L', 'int', None, [])
        gid = 0
        # every reference position on its own, target registered / withheld
        pos = {
            'value': ('O', [], None, [(None, 'a', ('M', [1]))]),
            'value-choice': ('O', [], None, [(None, 'a', ('M', [1, 2]))]),
            'key': ('O', [], None, [(3, None, L)]),
            'type': ('O', [], None, [(None, 'a', ('L', 'int', 1, []))]),
            'or-name': ('O', [], None, [(None, 'a', ('L', 'int', None, [('S', None), ('N', 2)]))]),
            'or-set': ('O', [], None, [(None, 'a', ('L', 'int', None, [('S', None), ('S', 2)]))]),
            'or-set-only': ('O', [], None, [(None, 'a', ('L', 'int', None, [('S', 1), ('S', 2)]))]),
            # an empty container with an `or` rule whose rule-set alternatives name types (a bare name is refused there: 1108)
            'or-set-on-empty-array': ('O', [], None, [(None, 'a', ('L', 'arr', None, [('S', None), ('S', 2)]))]),
            'or-set-on-empty-object': ('O', [], None, [(None, 'a', ('L', 'obj', None, [('S', 1), ('S', None), ('S', 2)]))]),
            'or-set-on-empty-root': ('L', 'arr', None, [('S', None), ('S', 1)]),
            'or-set-on-empty-item': ('A', [('L', 'obj', None, [('S', None), ('S', 2)]), ('L', 'int', None, [])]),
            'quoted-key-like-type': ('O', [], None, [(None, '@t3', ('M', [1]))]),
            'quoted-key-and-shortcut': ('O', [], None, [(None, '@t3', ('M', [1])), (3, None, ('M', [2]))]),
            'quoted-key-like-type-deep': ('O', [], None, [(None, '@t2', ('O', [], None, [(None, '@t1', ('A', [('L', 'int', 1, [])]))]))]),
            # several key shortcuts in one object (each of them is looked up, wherever it stands)
            'keys-2': ('O', [], None, [(3, None, L), (6, None, L)]),
            'keys-3': ('O', [], None, [(3, None, L), (6, None, ('M', [1])), (7, None, L)]),
            'key-plain-key': ('O', [], None, [(3, None, L), (None, 'a', L), (6, None, L)]),
            'keys-2-deep': ('A', [('O', [], None, [(None, 'a', ('O', [], None, [(6, None, L), (3, None, L)]))])]),
            'allof': ('O', [4], None, []),
            'additional': ('O', [], 2, []),
            'array-item': ('A', [('M', [1]), ('A', [('M', [2])])]),
            'root-value': ('M', [1, 2]),
            'nested': ('O', [], None, [(None, 'a', ('O', [4], 1, [(3, None, ('A', [('L', 'int', 2, [])]))]))]),
            # inheritance below an own property of an object that inherits itself
            'allof-in-allof': ('O', [4], None, [(None, 'a', ('O', [5], None, []))]),
            'allof-in-allof-array': ('O', [4], None, [(None, 'a', ('A', [('O', [5], 2, [])]))]),
        }
        bodies = {1: L, 2: L, 3: ('L', 'str', None, []), 6: ('L', 'str', None, []), 7: ('L', 'str', None, []), 4: ('O', [], None, [(None, 'z', L)]), 5: ('O', [], None, [(None, 'y', L)])}
        for nm, root in pos.items():
            need = sorted(set(refs(root)))
            for r in range(len(need) + 1):
                for sub in itertools.combinations(need, r):
                    reg = {t: bodies[t] for t in sub}
                    cs.append(Case(self.mk(root, reg), 'position-' + nm))
        # the same positions one level down: inside a registered type that the root refers to
        for nm, root in pos.items():
            need = sorted(set(refs(root)))
            for r in range(len(need) + 1):
                for sub in itertools.combinations(need, r):
                    reg = {t: bodies[t] for t in sub}
                    reg[9] = root
                    cs.append(Case(self.mk(('M', [9]), reg), 'position-in-type-' + nm))
                    # ... and inside a registered type nothing refers to
                    cs.append(Case(self.mk(L, reg), 'position-in-unused-type-' + nm))
        self.exhaustive_note = 'every reference position (12 shapes) x every subset of its targets registered, at the root, inside a used type, inside an unused type'
        # random valid projects, every subset of the types withheld (n <= 5) or 24 random subsets, with and without extras
        nproj = 60 if tier == 'quick' else 1200
        for _ in range(nproj):
            n = rng.randint(2, 6)
            root, types = self.gen_project(rng, n)
            names = sorted(types)
            subsets = [s for r in range(len(names) + 1) for s in itertools.combinations(names, r)]
            if len(subsets) > 32:
                subsets = [tuple(names), ()] + rng.sample(subsets, 22)
            style = rng.choice(['root', 'all'])
            for sub in subsets:
                reg = {t: types[t] for t in sub}
                gid += 1
                cs.append(Case(self.mk(root, reg, (), style), 'random-subset', meta='g%d' % gid))
                extras = [(7, L), (8, ('O', [], None, [(None, 'q', ('M', [7]))]))][:rng.randint(1, 2)]
                cs.append(Case(self.mk(root, reg, extras, style), 'random-subset+unused', meta='g%d' % gid))
        return cs

    def parse(self, line):
        g = line.split(' || ')[0].split(' ')[1:]
        pos = [0]

        def opt(x):
            return None if x == '-' else int(x)

        def rd():
            t = g[pos[0]]; pos[0] += 1
            if t == 'L':
                ty = opt(g[pos[0]]); na = int(g[pos[0] + 1]); pos[0] += 2
                alts = []
                for _ in range(na):
                    alts.append((g[pos[0]], opt(g[pos[0] + 1]))); pos[0] += 2
                return ('L', 'int', ty, alts)
            if t == 'M':
                k = int(g[pos[0]]); pos[0] += 1
                ns = [int(x) for x in g[pos[0]:pos[0] + k]]; pos[0] += k
                return ('M', ns)
            if t == 'A':
                k = int(g[pos[0]]); pos[0] += 1
                return ('A', [rd() for _ in range(k)])
            na = int(g[pos[0]]); pos[0] += 1
            al = [int(x) for x in g[pos[0]:pos[0] + na]]; pos[0] += na
            ap = opt(g[pos[0]]); np_ = int(g[pos[0] + 1]); pos[0] += 2
            props = []
            for _ in range(np_):
                sk = opt(g[pos[0]]); pos[0] += 1
                props.append((sk, 'k', rd()))
            return ('O', al, ap, props)
        root = rd()
        reg = {}
        while pos[0] < len(g) and g[pos[0]] == ';':
            nm = int(g[pos[0] + 1]); pos[0] += 2
            reg[nm] = rd()
        return root, reg

    def project_out(self, out, impl):
        m = re.match(r'used=(\S+)(?: check=(\S+))? missing=(\S+)', out)
        if not m:
            return out
        if impl:
            return 'used=%s missing=%s' % (m.group(1), 'yes' if m.group(2) == '1302' else 'no')
        return 'used=%s missing=%s' % (m.group(1), 'no' if m.group(3) == '-' else 'yes')

    def project(self, out):
        return self.project_out(out, True)

    def project_model(self, out):
        return self.project_out(out, False)

    def nontrivial(self, c):
        return ' ; ' in c.line or ' M ' in c.line

    def oracle(self, case, out):
        if 'panic' in out or 'TOOLCRASH' in out:
            return 'crash: ' + out[:200]
        m = re.match(r'used=(\S+) check=(\S+) missing=(\S+)', out)
        if not m:
            return None if out.startswith('build=') else 'unreadable result ' + out[:200]
        if ' usedlate=' in out:
            return 'UsedUserTypes() asked for the first time after Check()/Example()/GetAST() lists %s, asked first it lists %s' % (
                out.split(' usedlate=')[1][:80], m.group(1)[:80])
        used, chk, named = m.group(1), m.group(2), m.group(3)
        root, reg = self.parse(case.line)
        want = set(refs(root))
        if used == 'err':
            return 'UsedUserTypes() fails: ' + out[:100]
        got = [] if used == '-' else used.split(',')
        if len(got) != len(set(got)):
            return 'UsedUserTypes() lists a name twice: %s' % used
        if set(got) != set(str(x) for x in want):
            return 'UsedUserTypes() = {%s}, the schema refers to {%s}' % (used, ','.join(str(x) for x in sorted(want)))
        miss_root = reach_missing(root, reg)
        referenced = set(refs(root))
        for b in reg.values():
            referenced |= set(refs(b))
        miss_any = set(t for t in referenced if t not in reg)
        if miss_root and chk != '1302':
            return 'type(s) %s reachable from the root are not registered but Check() says %s' % (sorted(miss_root), chk)
        if chk == '1302':
            if named == '?' or not named.isdigit():
                return 'the 1302 diagnostic does not name a type: ' + out[:120]
            if int(named) in reg:
                return 'Check() reports registered type @t%s as not found' % named
            if int(named) not in miss_any:
                return 'Check() reports @t%s as not found, but neither the root nor a registered type refers to it' % named
        if not miss_any and chk != 'ok':
            return 'every referenced type is registered, yet Check() says %s' % chk
        return None

    def extra_checks(self, tier, rng, cases, impl):
        """registering extra valid types that nothing refers to changes no result"""
        groups = {}
        for c, o in zip(cases, impl):
            if c.meta:
                groups.setdefault(c.meta, []).append((c, o))
        bad = []
        for g, items in groups.items():
            ref = items[0][1]
            for c, o in items[1:]:
                if o != ref:
                    bad.append((Case(c.line, 'unused-types'), 'registering unused valid types changes the result: %s vs %s' % (o[:120], ref[:120])))
                    break
        # reference positions the graph model has no node for: hand-written schemas with the names they refer to; the one
        # withheld type (@gone) must be listed and reported
        import vf
        from props.c10 import spec, hx
        hand = [
            ('{} // {or: [{type: "object", additionalProperties: "@gone"}, {type: "string"}]}', {}, ['@gone']),
            ('{\n  "k": {} // {or: [{type: "object", additionalProperties: "@gone"}, {type: "integer"}]}\n}', {}, ['@gone']),
            ('{} // {or: [{type: "object", additionalProperties: "@here"}, {type: "string"}]}', {'@here': '1'}, ['@here']),
            ('[\n  "x" // {or: [{type: "@gone"}, {type: "string"}]}\n]', {}, ['@gone']),
            ('{ // {additionalProperties: "@gone"}\n}', {}, ['@gone']),
            ('{\n  "a": { // {additionalProperties: "@here", allOf: "@gone"}\n  }\n}', {'@here': '1'}, ['@here', '@gone']),
        ]
        lines = ['proj all ' + spec(r, t) for r, t, _ in hand]
        self.hand_cases = len(lines)
        for l, o, (r, t, want) in zip(lines, vf.run_impl(lines), hand):
            m = re.search(r'check=(\S+) len=\S+ used=(\S+)', o)
            if not m:
                bad.append((Case(l, 'hand-written-positions'), 'unreadable result ' + o[:120]))
                continue
            got = set() if m.group(2) == '-' else set(bytes.fromhex(x).decode() for x in m.group(2).split(','))
            if got != set(want):
                bad.append((Case(l, 'hand-written-positions'), 'UsedUserTypes() = %s, the schema refers to %s (%s)' % (sorted(got), sorted(want), r.replace('\n', ' ')[:90])))
            elif '@gone' in want and not m.group(1).startswith('err:1302'):
                bad.append((Case(l, 'hand-written-positions'), 'type @gone is referred to and not registered but Check() says %s (%s)' % (m.group(1)[:40], r.replace('\n', ' ')[:90])))
        return bad

    def shrink_candidates(self, case):
        return []

    def describe(self):
        return dict(
            rule='reference positions: value shortcut, choice, key shortcut, type, or (name / rule-set with other rules / rule-set only), allOf, '
                 'additionalProperties, array items, root value, nested - each with every subset of its targets registered, at the root, inside a '
                 'used type and inside an unused type; random valid projects (2-6 types of kinds int/str/object/array/choice, references to larger '
                 'names) with every subset of the types withheld (<= 32 subsets) in both registration styles, each with and without 1-2 extra '
                 'unused valid types. non-trivial = refers to a type',
            trusted=['Coq 8.16.1 kernel', 'model coq/Model/Refs.v tied by correspondence on the ordered UsedUserTypes() list and on whether Check() '
                     'reports 1302', 'text printer, reachability oracle in lib/props/c05.py', 'extraction, driver, harness'],
            assumptions=['a registered type that itself refers to a withheld type is not a "valid" extra type: the code checks every registered type, '
                         'so 1302 is then allowed (and required by the model) although the root does not reach the withheld type'],
            explanation='collector/resolution model with theorems; tie by correspondence on generated projects x registered subsets; independent oracle')
