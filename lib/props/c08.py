"""C08 - an accepted schema's example validates against its generated OpenAPI schema."""
import json, os, re, subprocess
import vf
from vf import Case
import samples
from props.c10 import hx
from props.c04 import TYPES, gen_model, Layout, tspec as c04_tspec
from props import c01

ORACLE = os.path.join(os.path.dirname(os.path.dirname(os.path.abspath(__file__))), 'oracles', 'oas_validate.py')
NUM_POOL = ['0', '-0', '1', '5', '-5', '-3', '42', '-100', '-101', '100', '12345678901234567890', '12345678901234567891', '-12345678901234567890', '99999999999999999999',
            '1.5', '-0.25', '3.140', '3.14', '0.001', '2.71828', '-100.5', '1.0']
STR_POOL = ['""', '"a"', '"abc"', '"a b"', '"é"', '"other"', '"x@y.org"', '"0123456789abcdefghij"', '"\\ud83d\\ude00"']
OTHER_POOL = ['true', 'false', 'null']


def to_leaf(lit, ann):
    """the rules of a c04-style leaf in the form of the C01 oracle; None when they are outside that oracle (or / regex / formats)"""
    rules_in = ann[0] if ann else []
    names = [n for n, _ in rules_in]
    if any(n in names for n in ('or', 'regex')):
        return None
    kind = c01.lit_kind(lit)
    rules = []
    excl_min = any(n == 'exclusiveMinimum' and v[1] == 'true' for n, v in rules_in)
    excl_max = any(n == 'exclusiveMaximum' and v[1] == 'true' for n, v in rules_in)
    for n, v in rules_in:
        if n == 'min':
            rules.append(('min', v[1], excl_min))
        elif n == 'max':
            rules.append(('max', v[1], excl_max))
        elif n in ('precision', 'minLength', 'maxLength'):
            rules.append((n, int(v[1])))
        elif n == 'enum':
            if v[0] == 's':      # enum: @rule
                from props.c04 import RULES
                import json as _j
                rules.append(('enum', [_j.dumps(x) for x in _j.loads(RULES[v[1]])]))
            else:
                rules.append(('enum', [x[1] for x in v[1]]))
        elif n == 'nullable' and v[1] == 'true':
            rules.append(('nullable',))
        elif n == 'const' and v[1] == 'true':
            rules.append(('enum', [lit]))
        elif n == 'type':
            t = json.loads(v[1])
            if t in ('integer', 'float', 'string', 'boolean', 'null'):
                kind = t
            elif t == 'decimal':
                kind = 'float'
            else:
                return None
    return ('L', kind, rules)


def leaf_cases():
    """(example, kind, [(rule name, value text)]) - every rule the converter turns into a keyword, at the edges of its ranges"""
    out = []
    big = ['9223372036854775807', '9223372036854775808', '18446744073709551615']
    for ex in ['"abc"', '"\\u00e9\\ud83d\\ude00x"', '"a b"']:
        for mn in [None, '0', '1', '3']:
            for mx in [None, '3', '10'] + big:
                rules = ([('minLength', mn)] if mn else []) + ([('maxLength', mx)] if mx else [])
                out.append((ex, 's', rules))
        out.append((ex, 's', [('minLength', '1'), ('maxLength', '5'), ('nullable', 'true')]))
        out.append((ex, 's', [('enum', '[%s, "other", 1, null]' % ex)]))
        out.append((ex, 's', [('const', 'true')]))
        out.append((ex, 's', [('type', '"string"'), ('minLength', '2')]))
    for ex, digits in [('1.5', 1), ('0.25', 2), ('3.140', 2), ('-0.001', 3), ('2.0', 0)]:
        for p in [1, 2, 3, 5, 15, 22, 23, 24, 25, 26, 30, 31, 100, 300, 323, 324, 400, 9223372036854775807]:
            if digits <= p:
                out.append((ex, 'f', [('precision', str(p))]))
                out.append((ex, 'f', [('type', '"decimal"'), ('precision', str(p))]))
        out.append((ex, 'f', [('min', '-100'), ('max', '100.5'), ('exclusiveMaximum', 'true'), ('precision', '4'), ('nullable', 'true')]))
        out.append((ex, 'f', [('const', 'true')]))
        out.append((ex, 'f', [('enum', '[%s, 7]' % ex)]))
        out.append((ex, 'f', [('type', '"float"')]))
    for ex in ['5', '-3', '12345678901234567890', '0']:
        out.append((ex, 'i', []))
        out.append((ex, 'i', [('enum', '[%s, 7, "x", null, true]' % ex)]))
        out.append((ex, 'i', [('const', 'true')]))
        out.append((ex, 'i', [('nullable', 'true')]))
        out.append((ex, 'i', [('nullable', 'false')]))
        out.append((ex, 'i', [('type', '"integer"'), ('min', '-100'), ('exclusiveMinimum', 'true'), ('max', '99999999999999999999')]))
        out.append((ex, 'i', [('min', ex), ('max', ex), ('const', 'true'), ('nullable', 'true')]))
    for ex in ['true', 'false']:
        out.append((ex, 'b', []))
        out.append((ex, 'b', [('const', 'true')]))
        out.append((ex, 'b', [('enum', '[true, false]')]))
        out.append((ex, 'b', [('nullable', 'true')]))
    out.append(('null', 'n', []))
    out.append(('null', 'n', [('const', 'true')]))
    out.append(('null', 'n', [('enum', '[null, 1]')]))
    return out


def leaf_tokens(kind, rules):
    """the leaf in the wire form of Extract/RunRules.v: F <kind> <n> rule*"""
    names = dict(rules)
    toks, count = [], 0
    for n, v in rules:
        if n == 'min':
            toks += ['m', hx(v), '1' if names.get('exclusiveMinimum') == 'true' else '0']
        elif n == 'max':
            toks += ['M', hx(v), '1' if names.get('exclusiveMaximum') == 'true' else '0']
        elif n == 'precision':
            toks += ['p', v]
        elif n == 'minLength':
            toks += ['l', v]
        elif n == 'maxLength':
            toks += ['L', v]
        elif n == 'enum':
            items = split_items(v)
            toks += ['e', str(len(items))] + [hx(x) for x in items]
        elif n == 'nullable' and v == 'true':
            toks += ['n']
        elif n == 'const' and v == 'true':
            toks += ['c']
        else:
            continue
        count += 1
    return ['F', kind, str(count)] + toks


def split_items(text):
    """the literals of a JSON array written on one line, as written"""
    inner = text.strip()[1:-1]
    items, cur, instr, esc = [], '', False, False
    for ch in inner:
        if instr:
            cur += ch
            if esc:
                esc = False
            elif ch == '\\':
                esc = True
            elif ch == '"':
                instr = False
        elif ch == '"':
            instr = True
            cur += ch
        elif ch == ',':
            items.append(cur.strip())
            cur = ''
        else:
            cur += ch
    if cur.strip():
        items.append(cur.strip())
    return items


AP_FORMS = [(None, 'f'), ('false', 'f'), ('true', 'y'), ('"any"', 'y'), ('"string"', 'ts'), ('"integer"', 'ti'), ('"float"', 'tn'), ('"boolean"', 'tb')]
# every type name of the vocabulary as written: the model maps the name (Model/OasTree.v ap_of_name)
AP_FORMS += [('"%s"' % n, 'w' + n.encode().hex()) for n in ['any', 'enum', 'mixed', 'string', 'integer', 'float', 'decimal', 'boolean', 'null', 'array', 'object',
                                                              'email', 'uri', 'uuid', 'date', 'datetime', '@t', '@u', '@o', '@r']]
TKEYS = ['"a"', '"b c"', '"\\u00e9"', '"k\\"q"', '"\\\\"', '"0"', '"#"', '"t\\tab"', '""', '"@id"', '"@t"']    # quoted: plain keys, also when they look like type names


# alternatives of an `or` rule over built-in types: (text in the schema, wire tokens, accepts(example literal)?)
def or_alt_pool():
    out = [('"integer"', ['L', 'F', 'i', '0'], 'i'), ('"float"', ['L', 'F', 'f', '0'], 'f'), ('"string"', ['L', 'F', 's', '0'], 's'),
           ('"boolean"', ['L', 'F', 'b', '0'], 'b'), ('"null"', ['L', 'F', 'n', '0'], 'n'), ('"any"', ['L', 'Y'], '*'), ('"email"', ['L', 'F', 's', '0'], None),
           ('"uuid"', ['L', 'F', 's', '0'], None), ('"object"', ['o'], None), ('"array"', ['a'], None),
           ('{type: "object"}', ['o'], None), ('{type: "array"}', ['a'], None), ('{type: "any"}', ['L', 'Y'], '*')]
    sets = [('integer', 'i', [('min', '0')]), ('integer', 'i', [('min', '0'), ('max', '10'), ('exclusiveMaximum', 'true')]), ('integer', 'i', [('const', 'true')]),
            ('integer', 'i', [('nullable', 'true')]), ('float', 'f', [('min', '1.5')]), ('decimal', 'f', [('precision', '2')]), ('decimal', 'f', [('precision', '1'), ('const', 'true')]),
            ('string', 's', [('minLength', '1')]), ('string', 's', [('maxLength', '3'), ('nullable', 'true')]), ('string', 's', [('const', 'true')]), ('string', 's', []),
            ('boolean', 'b', [('const', 'true')]), ('boolean', 'b', []), ('null', 'n', [])]
    for t, k, rules in sets:
        text = '{' + ', '.join(['type: "%s"' % t] + ['%s: %s' % (n, v) for n, v in rules]) + '}'
        out.append((text, ['L'] + leaf_tokens(k, rules), k if not rules or all(n in ('nullable',) for n, _ in rules) else None))
    # type names as alternatives (registered types of c04.TYPES: @u = 1, @t = "s", @o an object), bare and as rule-sets
    out += [('"@u"', ['r', hx('u'), '0'], 'i'), ('"@t"', ['r', hx('t'), '0'], 's'), ('"@o"', ['r', hx('o'), '0'], None),
            ('{type: "@u"}', ['r', hx('u'), '0'], 'i'), ('{type: "@t", nullable: true}', ['r', hx('t'), '1'], 's'), ('{type: "@o", nullable: true}', ['r', hx('o'), '1'], None)]
    out.append(('{type: "datetime"}', ['L'] + leaf_tokens('s', []), None))
    out.append(('{type: "enum", enum: [5, "a", null]}', ['L'] + leaf_tokens('s', [('enum', '[5, "a", null]')]), None))
    out.append(('{type: "enum", enum: [1.5, true]}', ['L'] + leaf_tokens('s', [('enum', '[1.5, true]')]), None))
    return out


OR_ALTS = None


def gen_or(rng):
    """a scalar example with an `or` rule whose first alternative certainly accepts it"""
    global OR_ALTS
    if OR_ALTS is None:
        OR_ALTS = or_alt_pool()
    ex, kind = rng.choice([('5', 'i'), ('0', 'i'), ('1.5', 'f'), ('"a"', 's'), ('"abcd"', 's'), ('true', 'b'), ('null', 'n')])
    sure = [a for a in OR_ALTS if a[2] in (kind, '*')]
    alts = [rng.choice(sure)] + [rng.choice(OR_ALTS) for _ in range(rng.randint(1, 3))]
    rng.shuffle(alts)
    return ('R', ex, alts, rng.random() < 0.15)


def gen_tree(rng, depth, pool):
    """('V', ex, kind, rules) | ('A', items, min, max, nullable) | ('O', [(key, optional, node)], ap, nullable) - no references"""
    r = rng.random()
    if depth >= 3 or r < 0.4:
        if rng.random() < 0.12:       # the value is written as a type name (registered types of c04.TYPES; @r and @l are recursive)
            return ('F', rng.choice(['@t', '@u', '@o', '@r', '@l']), rng.random() < 0.25)
        if rng.random() < 0.06:       # a type choice
            return ('C', rng.sample(['@t', '@u', '@o', '@r', '@l'], rng.randint(2, 3)), rng.random() < 0.2)
        if rng.random() < 0.06:       # a scalar example with type: "@name"
            ex, name = rng.choice([('5', '@u'), ('0', '@u'), ('"a"', '@t'), ('"abcd"', '@t')])
            return ('T', ex, name, rng.random() < 0.25)
        if rng.random() < 0.25:
            return gen_or(rng)
        ex, kind, rules = rng.choice(pool)
        return ('V', ex, kind, rules)
    if r < 0.68:
        n = rng.randint(0, 3)
        items = [gen_tree(rng, depth + 1, pool) for _ in range(n)]
        mn = rng.choice([None, None, 0, n])
        mx = rng.choice([None, None, n, n + 2, 9223372036854775807, 9223372036854775808])
        if n == 0:      # an empty example array admits only 0 for both counts
            mn, mx = rng.choice([None, 0]), rng.choice([None, 0])
        return ('A', items, mn, mx, rng.random() < 0.2)
    n = rng.randint(0, 3)
    keys = rng.sample(TKEYS, n)
    ms = [(k, rng.random() < 0.3, gen_tree(rng, depth + 1, pool)) for k in keys]
    if rng.random() < 0.2:        # key shortcuts next to the ordinary members: `@t: value` (string types of c04.TYPES)
        ks = [(k, rng.random() < 0.3, gen_tree(rng, depth + 1, pool)) for k in rng.sample(['@t', '@q', '@qq', '@bs'], rng.randint(1, 2))]
        return ('K', ms, ks, rng.choice(AP_FORMS), rng.random() < 0.2)
    return ('O', ms, rng.choice(AP_FORMS), rng.random() < 0.2)


def ann_of(rules):
    return (' // {' + ', '.join('%s: %s' % (n, v) for n, v in rules) + '}') if rules else ''


def tree_text(t, indent, extra, comma):
    """JSight text of the tree; `extra`: rules of the member (optional), `comma`: what follows the value"""
    pad = '  ' * indent
    if t[0] == 'V':
        return t[1] + comma + ann_of(list(t[3]) + extra)
    if t[0] == 'F':
        return t[1] + comma + ann_of(([('nullable', 'true')] if t[2] else []) + extra)
    if t[0] == 'C':
        return ' | '.join(t[1]) + comma + ann_of(([('nullable', 'true')] if t[2] else []) + extra)
    if t[0] == 'T':
        return t[1] + comma + ann_of([('type', '"%s"' % t[2])] + ([('nullable', 'true')] if t[3] else []) + extra)
    if t[0] == 'R':
        return t[1] + comma + ann_of([('or', '[' + ', '.join(a[0] for a in t[2]) + ']')] + ([('nullable', 'true')] if t[3] else []) + extra)
    if t[0] == 'A':
        rules = extra + ([('minItems', str(t[2]))] if t[2] is not None else []) + ([('maxItems', str(t[3]))] if t[3] is not None else []) + ([('nullable', 'true')] if t[4] else [])
        lines = [pad + '  ' + tree_text(x, indent + 1, [], ',' if i + 1 < len(t[1]) else '') for i, x in enumerate(t[1])]
        return '[' + ann_of(rules) + '\n' + ''.join(l + '\n' for l in lines) + pad + ']' + comma
    if t[0] == 'K':
        t = ('O', list(t[1]) + list(t[2]), t[3], t[4])          # the shortcuts are written like members, their key bare
    rules = extra + ([('additionalProperties', t[2][0])] if t[2][0] is not None else []) + ([('nullable', 'true')] if t[3] else [])
    lines = [pad + '  ' + k + ': ' + tree_text(x, indent + 1, [('optional', 'true')] if o else [], ',' if i + 1 < len(t[1]) else '') for i, (k, o, x) in enumerate(t[1])]
    return '{' + ann_of(rules) + '\n' + ''.join(l + '\n' for l in lines) + pad + '}' + comma


def tree_tokens(t):
    if t[0] == 'V':
        return ['V', hx(t[1])] + leaf_tokens(t[2], t[3])
    if t[0] == 'F':
        return ['F', hx(t[1][1:]), '1' if t[2] else '0']
    if t[0] == 'C':
        return ['C', str(len(t[1])), '1' if t[2] else '0'] + [hx(n[1:]) for n in t[1]]
    if t[0] == 'T':
        return ['T', hx(t[1]), hx(t[2][1:]), '1' if t[3] else '0']
    if t[0] == 'R':
        out = ['R', hx(t[1]), str(len(t[2])), '1' if t[3] else '0']
        for a in t[2]:
            out += a[1]
        return out
    if t[0] == 'A':
        out = ['A', str(len(t[1])), '-' if t[2] is None else str(t[2]), '-' if t[3] is None else str(t[3]), '1' if t[4] else '0']
        for x in t[1]:
            out += tree_tokens(x)
        return out
    if t[0] == 'K':
        out = ['K', str(len(t[1])), str(len(t[2])), t[3][1], '1' if t[4] else '0']
        for k, o, x in t[1]:
            out += [hx(json.loads(k)), '1' if o else '0'] + tree_tokens(x)
        for k, o, x in t[2]:
            out += [hx(k[1:]), '1' if o else '0'] + tree_tokens(x)
        return out
    out = ['O', str(len(t[1])), t[2][1], '1' if t[3] else '0']
    for k, o, x in t[1]:
        out += [hx(json.loads(k)), '1' if o else '0'] + tree_tokens(x)
    return out


class Num(str):
    """a JSON number kept as it is spelled"""


def canon_item(x):
    if isinstance(x, Num):
        return str(x)
    return json.dumps(x, ensure_ascii=False, sort_keys=True)


def canon_leaf(o):
    keys = []
    for k in ('type', 'minimum', 'exclusiveMinimum', 'maximum', 'exclusiveMaximum', 'minLength', 'maxLength'):
        if k in o:
            v = o[k]
            keys.append('%s=%s' % (k, 'true' if v is True else 'false' if v is False else v))
    if 'multipleOf' in o:
        r = str(o['multipleOf'])
        e = re.match(r'1e-(\d+)$', r)
        f = re.match(r'0\.(0*)1$', r)
        keys.append('multipleOf=%s' % (int(e.group(1)) if e else len(f.group(1)) + 1 if f else 0 if r == '1' else 'raw:' + r))
    if 'enum' in o:
        keys.append('enum=' + ','.join(hx(canon_item(x)) for x in o['enum']))
    if 'nullable' in o:
        keys.append('nullable=%s' % json.dumps(o['nullable']))
    return ';'.join(keys)


def canon_node(o):
    """a Schema Object in the spelling of Extract/RunOast.v"""
    if not isinstance(o, dict):
        return 'notanobject'
    t = o.get('type')
    REF = '#/components/schemas/'
    if set(o.keys()) == {'$ref'} and o['$ref'].startswith(REF):
        return 'F(' + hx(o['$ref'][len(REF):]) + ')'
    if 'allOf' in o and set(o.keys()) <= {'allOf', 'nullable', 'example'} and len(o['allOf']) == 1 and set(o['allOf'][0].keys()) == {'$ref'}:
        return 'F(' + ('nullable;' if o.get('nullable') is True else '') + hx(o['allOf'][0]['$ref'][len(REF):]) + ')'
    if 'anyOf' in o and t is None:
        return 'Y(' + ';'.join((['nullable'] if o.get('nullable') is True else []) + ['[' + ','.join(canon_node(x) for x in o['anyOf']) + ']']) + ')'
    if t == 'array':
        items = o.get('items', {})
        its = items['anyOf'] if isinstance(items, dict) and set(items.keys()) == {'anyOf'} else ([] if items == {} else [items])
        parts = (['mn=%s' % o['minItems']] if 'minItems' in o else []) + (['mx=%s' % o['maxItems']] if 'maxItems' in o else [])
        parts += ['nullable'] if o.get('nullable') is True else []
        parts.append('[' + ','.join(canon_node(x) for x in its) + ']')
        return 'A(' + ';'.join(parts) + ')'
    if t == 'object':
        ap = o.get('additionalProperties', True)
        apc = ('f' if ap is False else 'y' if ap is True else 'other' if not isinstance(ap, dict) else
               'anyOf[' + ','.join(canon_node(x) for x in ap['anyOf']) + ']' if set(ap.keys()) == {'anyOf'} else
               't:%s' % ap['type'] if set(ap.keys()) == {'type'} else
               'null' if ap == {'enum': [None]} else 'array' if ap == {'type': 'array', 'items': {}} else
               'object' if ap == {'type': 'object', 'properties': {}, 'additionalProperties': False} else
               't:string:%s' % ap['format'] if set(ap.keys()) == {'type', 'format'} and ap['type'] == 'string' else
               'ref:' + hx(ap['$ref'][len(REF):]) if set(ap.keys()) == {'$ref'} and ap['$ref'].startswith(REF) else 'other')
        parts = ['req=[' + ','.join(hx(k) for k in o.get('required', [])) + ']', 'ap=' + apc]
        parts += ['nullable'] if o.get('nullable') is True else []
        parts.append('{' + ','.join(hx(k) + ':' + canon_node(v) for k, v in o.get('properties', {}).items()) + '}')
        return 'O(' + ';'.join(parts) + ')'
    return 'L(' + canon_leaf(o) + ')'


OR_NAMES = ['"integer"', '"float"', '"decimal"', '"string"', '"boolean"', '"null"', '"any"', '"email"', '"uri"', '"date"', '"datetime"', '"uuid"', '"object"', '"array"', '"enum"', '"@t"', '"@u"', '"@o"']
OR_SETS = ['{type: "@t"}', '{type: "@u"}', '{type: "@u", nullable: true}', '{type: "@o"}', '{type: "@o", nullable: true}', '{type: "enum", enum: @e}',
           '{type: "integer"}', '{type: "integer", min: 0}', '{type: "integer", min: 0, max: 10, exclusiveMaximum: true}', '{type: "integer", const: true}',
           '{type: "integer", nullable: true}', '{type: "float"}', '{type: "float", min: 1.5}', '{type: "decimal", precision: 2}', '{type: "decimal", precision: 1, const: true}',
           '{type: "string"}', '{type: "string", minLength: 1}', '{type: "string", maxLength: 3, nullable: true}', '{type: "string", const: true}', '{type: "string", regex: "^a"}',
           '{type: "boolean"}', '{type: "boolean", const: true}', '{type: "null"}', '{type: "any"}', '{type: "email"}', '{type: "datetime"}', '{type: "uuid", nullable: true}',
           '{type: "enum", enum: [5, "a", null]}', '{type: "enum", enum: [1.5, true]}', '{type: "object"}', '{type: "array"}', '{type: "array", minItems: 0}',
           '{type: "object", additionalProperties: true}']
OR_EXAMPLES = ['5', '0', '1.5', '"a"', '"abcd"', 'true', 'null', '"x@y.org"', '"2021-01-02T07:23:12+03:00"', '{}', '[]', '[\n  1\n]', '{\n  "k": 1\n}']


def or_forms(rng, n):
    out = []
    for ex in OR_EXAMPLES:                       # every alternative once with every example, next to a plain name
        for a in OR_NAMES + OR_SETS:
            for other in ['"string"', '"integer"']:
                out.append(or_text(ex, [a, other], rng))
    for _ in range(n):
        alts = [rng.choice(OR_NAMES + OR_SETS + OR_SETS) for _ in range(rng.randint(2, 4))]
        out.append(or_text(rng.choice(OR_EXAMPLES), alts, rng))
    return out


def or_text(ex, alts, rng):
    rules = 'or: [%s]' % ', '.join(alts) + (', nullable: true' if rng.random() < 0.15 else '')
    if ex[0] in '{[' and len(ex) > 2:
        return ex[0] + ' // {' + rules + '}' + ex[1:]
    if rng.random() < 0.3:
        return '{\n  "m": %s // {%s}\n}' % (ex, rules) if ex[0] not in '{[' else '{\n  "m": %s // {%s}\n  %s\n}' % (ex[0], rules, ex[1:]) if len(ex) == 2 else ex[0] + ' // {' + rules + '}' + ex[1:]
    if len(ex) == 2 and ex[0] in '{[':
        return ex[0] + ' // {' + rules + '}\n' + ex[1]
    return ex + ' // {' + rules + '}'


def leaves_of(n, path=()):
    if n[0] == 'L':
        yield path, n
    elif n[0] == 'A':
        for i, x in enumerate(n[2]):
            yield from leaves_of(x, path + (i,))
    elif n[0] == 'O':
        for i, (k, x) in enumerate(n[2]):
            yield from leaves_of(x, path + (i,))


def plain_text(n, repl=None, path=()):
    """the example the model denotes, with the leaf at `repl[0]` replaced by the literal repl[1]; references keep their registered example"""
    if repl and repl[0] == path:
        return repl[1]
    if n[0] == 'L':
        return n[1]
    if n[0] == 'R':
        return TYPES[n[1][0]].replace('\n', '')
    if n[0] == 'A':
        return '[' + ','.join(plain_text(x, repl, path + (i,)) for i, x in enumerate(n[2])) + ']'
    out = []
    for i, (k, x) in enumerate(n[2]):
        key = k[1] if k[0] == 'k' else '"s"'          # a key shortcut @t stands for any string key
        out.append(key + ':' + plain_text(x, repl, path + (i,)))
    return '{' + ','.join(out) + '}'


def allof_closed(case, reason):
    """F08b: an object with allOf is converted to `allOf: [$ref]` next to `additionalProperties: false`"""
    try:
        text = bytes.fromhex(case.line.split(' ')[1]).decode('utf-8', 'replace')
    except Exception:
        return False
    return 'allOf' in text


class Prop:
    known_matchers = {'allof_closed': allof_closed}
    id = 'C08'
    level = 'proof'
    theorems_file = 'Properties/C08.v'
    uses_model = True
    exhaustive_note = ''

    def cases(self, tier, rng):
        cs = []
        self.models = {}
        n = 700 if tier == 'quick' else 12000
        for i in range(n):
            m = gen_model(rng)
            line = 'oas ' + hx(Layout(rng).text(m))
            self.models[line] = m
            cs.append(Case(line, 'model'))
        for s in samples.SCHEMAS:
            cs.append(Case('oas ' + hx(s), 'sample'))
        # scalar leaves on their own: the rule -> keyword translation (compared with the Coq model of the translation)
        for v, b in [(v, b) for v in NUM_POOL[:14] for b in NUM_POOL[:14]]:
            for name in ('min', 'max'):
                for ex in (False, True):
                    if c01.sat_rule((name, b, ex), v, None):
                        rules = [(name, ('s', b))] + ([('exclusive' + ('Minimum' if name == 'min' else 'Maximum'), ('s', 'true'))] if ex else [])
                        m = ('L', v, (rules, ''))
                        line = 'oas ' + hx(Layout(rng).text(m))
                        self.models[line] = m
                        cs.append(Case(line, 'bound'))
        # string formats, alone and as alternatives written as names or as rule-sets
        for fmt, ex in [('datetime', '"2021-01-02T07:23:12+03:00"'), ('date', '"2021-01-02"'), ('email', '"x@y.org"'), ('uri', '"http://a.b/c"'),
                        ('uuid', '"550e8400-e29b-41d4-a716-446655440000"')]:
            for form in ['%s // {type: "%s"}', '%s // {or: ["%s", "integer"]}', '%s // {or: [{type: "%s"}, {type: "integer", min: 0}]}',
                         '{\n  "k": %s, // {or: [{type: "%s"}, {type: "@t"}]}\n  "n": 1\n}', '[\n  %s // {or: [{type: "%s", nullable: true}, "boolean"]}\n]']:
                cs.append(Case('oas ' + hx(form % (ex, fmt)), 'format'))
        # scalar nodes with every keyword the converter derives from their rules, and trees of them under arrays and
        # objects (compared with the Coq model of the conversion: Model/OasLeaf.v, Model/OasTree.v)
        self.treeq = {}
        pool = leaf_cases()
        for ex, kind, rules in pool:
            t = ('V', ex, kind, rules)
            line = 'oas ' + hx(tree_text(t, 0, [], ''))
            self.treeq[line] = 'oast ' + ' '.join(tree_tokens(t))
            cs.append(Case(line, 'leaf-keywords'))
        for i in range(400 if tier == 'quick' else 6000):
            t = gen_tree(rng, 0, pool)
            line = 'oas ' + hx(tree_text(t, 0, [], ''))
            self.treeq[line] = 'oast ' + ' '.join(tree_tokens(t))
            cs.append(Case(line, 'tree'))
        # recursive user types, at the root and inside containers
        for text in ['@r', '@l', '@l | @u', '{\n  "a": @r,\n  "b": @l\n}', '[\n  @r,\n  @l\n]', '{\n  "a": @r // {optional: true}\n}', '{\n  @t: @l\n}',
                     '{ // {additionalProperties: "@r"}\n}', '1 // {or: ["@r", "integer"]}', '{\n  "k": [\n    @l | @r\n  ]\n}']:
            cs.append(Case('oas ' + hx(text), 'recursive'))
        # additionalProperties with every type name of the vocabulary, a user type, a recursive one - on plain objects, next to
        # key shortcuts (the converter then builds an anyOf of the named type and the shortcut types), nested, nullable
        for tn in ['string', 'integer', 'float', 'decimal', 'boolean', 'null', 'array', 'object', 'any', 'email', 'uri', 'uuid', 'date', 'datetime',
                   'enum', 'mixed', '@t', '@u', '@o', '@r']:
            for form in ['{ // {additionalProperties: "%s"}\n  "a": 1\n}', '{ // {additionalProperties: "%s"}\n}',
                         '{ // {additionalProperties: "%s"}\n  @t: 1\n}', '{ // {additionalProperties: "%s", nullable: true}\n  "a": 1,\n  @t: 2,\n  @u: "v"\n}',
                         '[\n  { // {additionalProperties: "%s"}\n    "k": { // {additionalProperties: "%s"}\n    }\n  }\n]',
                         '{\n  "m": { // {additionalProperties: "%s", optional: true}\n    @u: true\n  }\n}']:
                cs.append(Case('oas ' + hx(form.replace('%s', tn)), 'additional-properties'))
        # key shortcuts: the key of the example is the example of the key's type, whatever characters it has
        for form in ['{\n  %s: 1\n}', '{\n  "a": true,\n  %s: [\n    1\n  ]\n}', '[\n  {\n    %s: "v" // {optional: true}\n  }\n]', '{ // {additionalProperties: "integer"}\n  %s: 2\n}']:
            for k in ['@t', '@q', '@qq', '@bs']:
                cs.append(Case('oas ' + hx(form % k), 'key-shortcuts'))
        # `or` over names and rule-sets (no references): whatever Check() accepts must convert, and the example must be valid
        for text in or_forms(rng, 500 if tier == 'quick' else 8000):
            cs.append(Case('oas ' + hx(text), 'or-forms'))
        self.case_class = {c.line: c.klass for c in cs}
        return cs

    def run_impl(self, lines):
        texts = [l.split(' ')[1] for l in lines]
        tspec = c04_tspec()
        res = vf.run_impl(['proj all %s %s' % (t, tspec) for t in texts])
        comp = vf.run_impl(['proj openapi %s %s' % (hx(v), tspec) for k, v in TYPES.items()])
        self.components = {}
        for (k, v), c in zip(TYPES.items(), comp):
            if re.match(r'^[0-9a-f]+$', c):
                self.components[k[1:]] = bytes.fromhex(c).decode()
        out = []
        for r in res:
            m = re.match(r'check=(\S+) len=(\S+) used=(\S+) example=(\S+) ast=(\S+) openapi=(\S+)', r)
            if m and ' again=' in r:
                out.append('again ' + r.split(' again=')[1][:120])
            elif not m:
                out.append('rej ' + r[:60])
            elif not m.group(1).startswith('ok'):
                out.append('rej ' + m.group(1).split('~')[0])
            else:
                out.append('ok example=%s openapi=%s' % (m.group(4).split('~')[0], m.group(6).split('~')[0]))
        return out

    def model_lines(self, lines, impl):
        # the Coq model of the translation covers scalar leaves with bound rules: ask it for those
        ql = []
        for l in lines:
            m = self.models.get(l)
            if m is not None and m[0] == 'L' and self.case_class.get(l) == 'bound':
                leaf = to_leaf(m[1], m[2])
                ql.append('oast V ' + hx(m[1]) + ' ' + ' '.join(c01.tok_leaf(leaf)))
            elif l in self.treeq:
                ql.append(self.treeq[l])
            else:
                ql.append(None)
        return ql

    case_class = {}
    treeq = {}

    def project(self, out):
        """the Schema Object in the spelling of the model's answer (numbers as they are written)"""
        m = re.match(r'ok example=(\S+) openapi=([0-9a-f]+)$', out)
        if not m:
            return out
        try:
            o = json.loads(bytes.fromhex(m.group(2)).decode(), parse_float=Num, parse_int=Num)
        except Exception:
            return out
        return canon_node(o)

    def project_model(self, out):
        def fix_enum(mm):
            items = [x for x in mm.group(1).split(',') if x]
            lits = ['' if x == '-' else bytes.fromhex(x).decode('utf-8', 'replace') for x in items]
            vals = []
            for lit in lits:
                try:
                    vals.append(canon_item(json.loads(lit, parse_float=Num, parse_int=Num)))
                except Exception:
                    vals.append('unreadable:' + lit)
            return 'enum=' + ','.join(hx(v) for v in vals)
        return re.sub(r'enum=([0-9a-f,\-]*)', fix_enum, out)

    def nontrivial(self, c):
        return True

    def oracle(self, case, out):
        return self.verdicts.get(case.line)

    verdicts = {}

    def extra_checks(self, tier, rng, cases, impl):
        """the independent judge, in one batch: well-formedness, the example, every accepted variation"""
        self.case_class = {c.line: c.klass for c in cases}
        qs, owners = [], []
        bad = []
        for c, o in zip(cases, impl):
            if 'panic' in o or 'TOOLCRASH' in o:
                bad.append((c, 'crash: ' + o[:120])); continue
            m = re.match(r'ok example=(\S+) openapi=(\S+)', o)
            if o.startswith('again '):
                bad.append((c, 'asked a second time, the same schema object gives another answer: ' + o[6:])); continue
            if not m:
                if c.line in self.models:
                    bad.append((c, 'TIE:a generated schema is refused by the library (C08 speaks about accepted schemas only): ' + o[:80]))
                continue
            ex, oas = m.group(1), m.group(2)
            if not re.match(r'^[0-9a-f]+$', ex):
                bad.append((c, 'Example() of an accepted schema fails: ' + ex[:60])); continue
            if not re.match(r'^[0-9a-f]+$', oas):
                bad.append((c, 'the OpenAPI conversion of an accepted schema fails: ' + oas[:60])); continue
            insts = [bytes.fromhex(ex).decode('utf-8', 'replace')]
            labels = ['Example()']
            model = self.models.get(c.line)
            if model is not None:
                for path, leaf in leaves_of(model):
                    cl = to_leaf(leaf[1], leaf[2])
                    if cl is None:
                        continue
                    pool = NUM_POOL if cl[1] in ('integer', 'float') else STR_POOL if cl[1] == 'string' else OTHER_POOL
                    for cand in pool + ['null']:
                        if cand != leaf[1] and c01.sat_leaf(cl, cand):
                            insts.append(plain_text(model, (path, cand)))
                            labels.append('variation %s at %s' % (cand, '/'.join(map(str, path)) or 'root'))
            qs.append(json.dumps({'schema': bytes.fromhex(oas).decode('utf-8', 'replace'), 'components': self.components, 'instances': insts}))
            owners.append((c, labels))
        self.judged = sum(len(l) for _, l in owners)
        self.accepted = {}
        for c, _ in owners:
            self.accepted[c.klass] = self.accepted.get(c.klass, 0) + 1
        if qs:
            p = subprocess.run(['python3-vt', ORACLE], input='\n'.join(qs) + '\n', capture_output=True, text=True, timeout=3000)
            answers = [json.loads(l) for l in p.stdout.splitlines() if l.strip()]
            if len(answers) != len(qs):
                bad.append((cases[0], 'the validator did not answer every question: %s' % p.stderr[-300:]))
            for (c, labels), a in zip(owners, answers):
                if a['wellformed'] is not True:
                    bad.append((c, 'the OpenAPI output is not a well-formed Schema Object: %s' % a['wellformed'])); continue
                for lab, v in zip(labels, a['valid']):
                    if v is not True:
                        bad.append((c, '%s is not a valid instance of the generated Schema Object: %s' % (lab, v))); break
        self.verdicts = {}
        return [(Case(c.line, c.klass), why) for c, why in bad]

    judged = 0
    accepted = {}

    def more_evidence(self):
        return dict(instances_judged=self.judged, accepted_schemas_by_class=self.accepted)

    def describe(self):
        return dict(
            rule='scalar nodes with every rule the converter turns into a keyword (lengths, precision up to the limits of float64, enum, const, nullable, '
                 'explicit types, null examples) and random trees of them under arrays (item counts) and objects (escaped keys, optional members, every '
                 'additionalProperties form without references): the whole Schema Object is compared with the Coq model of the conversion; '
                 'generated schema models (rule sets per type, 20-digit bounds, enum / or / const / nullable / optional, references, key shortcuts, nested containers) and '
                 'the sample schemas: Example() and the OpenAPI conversion must succeed, the output must be a well-formed Schema Object, and the example - and, one '
                 'scalar at a time, every value of a pool that the leaf\'s own rules accept (judged by the exact C01 oracle) - must be valid against it, with the '
                 'registered types as components; scalar leaves with bounds are also compared with the Coq model of the translation',
            trusted=['Coq 8.16.1 kernel', 'models coq/Model/OasSem.v, OasLeaf.v, OasTree.v (the converter for scalar nodes and for arrays/objects without references + JSON Schema / OpenAPI 3.0 semantics of the keywords) tied by correspondence on the whole emitted Schema Object',
                     'independent judge: python jsonschema 4.26 Draft4Validator with exact numbers (int/Decimal), OpenAPI 3.0 `nullable` lowered to anyOf, formats not enforced',
                     'C01 oracle for "the schema\'s own rules still accept"', 'extraction, driver, harness'],
            assumptions=['variations are generated for leaves whose rules the C01 oracle covers (not regex, formats, or)', 'a key shortcut @t is instantiated with one string key'],
            explanation='translation-soundness theorems (scalar nodes in full; trees without references: every accepted value, the example included, is valid); validation of examples and accepted variations by an independent JSON Schema validator')
