"""C19 - ordered containers vs an insertion-ordered dictionary."""
import itertools
from vf import Case

KEYS = [0, 1, 2]
ABSENT = 3
OBS = 'J L G 0 G 1 G 2 G 3 H 0 H 3 I 4 E 2'


def letters():
    ls = []
    for k in KEYS:
        ls.append(('S %d' % k, 'S'))
    for k in KEYS:
        ls.append(('U %d %d' % (k, k % 3), 'U'))
    for k in KEYS + [ABSENT]:
        ls.append(('D %d' % k, 'D'))
    for f in range(6):
        ls.append(('F %d' % f, 'F'))
    for f in range(4):
        ls.append(('M %d' % f, 'M'))
    return ls


def render(seq):
    """Set values are made distinct by position so that overwritten values are observable."""
    out = []
    for i, (l, _) in enumerate(seq):
        out.append(l + (' %d' % (10 + i)) if l.startswith('S') else l)
    return ' '.join(out)


# reference dictionary (python dicts keep insertion order; written out explicitly anyway)
PRED = [lambda k, v: False, lambda k, v: True, lambda k, v: k == 0, lambda k, v: k != 1,
        lambda k, v: v % 2 == 0, lambda k, v: k % 2 == 0]
UPD = [lambda v: v + 1, lambda v: 7, lambda v: 2 * v]


def MAPF(n):
    if n == 0:
        return lambda k, v: (v + 1, None)
    if n == 1:
        return lambda k, v: (None, 5) if k == 1 else (2 * v, None)
    if n == 2:
        return lambda k, v: (None, 9)
    return lambda k, v: (k, None)


def EACH(n):
    if n == 0:
        return lambda k, v: None
    if n == 1:
        return lambda k, v: 3 if k == 2 else None
    return lambda k, v: v if v % 2 == 0 else None


def ref_omap(tokens):
    d = []  # list of [k, v], oldest first

    def find(k):
        for e in d:
            if e[0] == k:
                return e
        return None
    out = []
    i = 0
    a = tokens
    while i < len(a):
        o = a[i]
        if o == 'S':
            k, v = int(a[i + 1]), int(a[i + 2]); e = find(k)
            if e:
                e[1] = v
            else:
                d.append([k, v])
            out.append('-'); i += 3
        elif o == 'U':
            k, f = int(a[i + 1]), min(int(a[i + 2]), 2); e = find(k)
            if e:
                e[1] = UPD[f](e[1])
            out.append('-'); i += 3
        elif o == 'D':
            k = int(a[i + 1]); d[:] = [e for e in d if e[0] != k]; out.append('-'); i += 2
        elif o == 'F':
            f = PRED[min(int(a[i + 1]), 5)]; d[:] = [e for e in d if f(e[0], e[1])]; out.append('-'); i += 2
        elif o == 'M':
            f = MAPF(int(a[i + 1])); err = None
            for e in d:
                v, er = f(e[0], e[1])
                if er is not None:
                    err = er; break
                e[1] = v
            out.append('eN' if err is None else 'e%d' % err); i += 2
        elif o == 'I':
            f = PRED[min(int(a[i + 1]), 5)]; r = 'iN'
            for e in d:
                if f(e[0], e[1]):
                    r = 'i%d:%d' % (e[0], e[1]); break
            out.append(r); i += 2
        elif o == 'E':
            f = EACH(int(a[i + 1])); r = 'eN'
            for e in d:
                x = f(e[0], e[1])
                if x is not None:
                    r = 'e%d' % x; break
            out.append(r); i += 2
        elif o == 'G':
            e = find(int(a[i + 1])); out.append('vN' if e is None else 'v%d' % e[1]); i += 2
        elif o == 'H':
            out.append('b1' if find(int(a[i + 1])) else 'b0'); i += 2
        elif o == 'L':
            out.append('n%d' % len(d)); i += 1
        elif o == 'J':
            out.append('j' + ','.join('%d:%d' % (e[0], e[1]) for e in d)); i += 1
        else:
            raise ValueError(o)
    return ' '.join(out)


def ref_sset(tokens):
    n = int(tokens[0]); s = []
    for t in tokens[1:1 + n]:
        if int(t) not in s:
            s.append(int(t))
    a = tokens[1 + n:]; out = []; i = 0
    while i < len(a):
        o = a[i]
        if o == 'A':
            if int(a[i + 1]) not in s:
                s.append(int(a[i + 1]))
            out.append('-'); i += 2
        elif o == 'H':
            out.append('b1' if int(a[i + 1]) in s else 'b0'); i += 2
        elif o == 'L':
            out.append('n%d' % len(s)); i += 1
        elif o == 'D':
            out.append('d' + ','.join(map(str, s))); i += 1
        else:
            raise ValueError(o)
    return ' '.join(out)


class Prop:
    id = 'C19'
    level = 'proof'
    theorems_file = 'Properties/C19.v'
    exhaustive_note = ''

    def cases(self, tier, rng):
        L = letters()
        maxlen = 4 if tier == 'quick' else 5
        nrand = 3000 if tier == 'quick' else 100000
        cs = []
        for n in range(0, maxlen + 1):
            for seq in itertools.product(L, repeat=n):
                cs.append(Case('omap ' + render(seq) + (' ' if n else '') + OBS, 'omap-exh-len%d' % n))
        for _ in range(nrand):
            n = rng.randint(maxlen + 1, 40)
            seq = [rng.choice(L) for _ in range(n)]
            # observe in the middle as well
            toks = []
            for i, (l, _) in enumerate(seq):
                toks.append(l + (' %d' % (10 + i)) if l.startswith('S') else l)
                if rng.random() < 0.1:
                    toks.append(rng.choice(['J', 'L', 'G %d' % rng.randint(0, 3), 'I %d' % rng.randint(0, 5),
                                            'E %d' % rng.randint(0, 2)]))
            cs.append(Case('omap ' + ' '.join(toks) + ' ' + OBS, 'omap-random'))
        # string set: all constructor argument lists of length <= 3 over 3 keys x all Add histories <= 3
        smax = 3 if tier == 'quick' else 4
        for n in range(0, smax + 1):
            for init in itertools.product(KEYS, repeat=n):
                for m in range(0, smax + 1):
                    for adds in itertools.product(KEYS, repeat=m):
                        t = ['sset', str(n)] + [str(k) for k in init] + ['D', 'L']
                        for k in adds:
                            t += ['A', str(k)]
                        t += ['D', 'L', 'H', '0', 'H', '1', 'H', '2', 'H', '3']
                        cs.append(Case(' '.join(t), 'sset-exh'))
        self.exhaustive_note = ('all histories of length <= %d over the %d-letter op alphabet (3 keys + 1 absent key), '
                                'all string-set constructor/Add histories of length <= %d+%d' % (maxlen, len(L), smax, smax))
        return cs

    def project(self, out):
        return out

    def nontrivial(self, c):
        # a history is non-trivial when it contains a removal or a callback op after at least one Set
        t = c.line.split(' ')
        if t[0] == 'sset':
            return len(t) > 12
        return 'S' in t and any(x in t for x in ('D', 'F', 'M', 'U'))

    def oracle(self, case, impl_out):
        t = case.line.split(' ')
        try:
            exp = ref_omap(t[1:]) if t[0] == 'omap' else ref_sset(t[1:])
        except Exception as e:
            return 'oracle cannot read the case: %r' % e
        if impl_out != exp:
            return 'container differs from the insertion-ordered dictionary: got [%s] expected [%s]' % (impl_out, exp)
        return None

    def shrink_candidates(self, case):
        t = case.line.split(' ')
        if t[0] != 'omap':
            return
        # split into ops
        ar = {'S': 3, 'U': 3, 'D': 2, 'F': 2, 'M': 2, 'I': 2, 'E': 2, 'G': 2, 'H': 2, 'L': 1, 'J': 1}
        ops, i = [], 1
        while i < len(t):
            ops.append(t[i:i + ar[t[i]]]); i += ar[t[i]]
        for j in range(len(ops)):
            rest = ops[:j] + ops[j + 1:]
            yield Case('omap ' + ' '.join(' '.join(o) for o in rest), 'shrunk')

    def describe(self):
        return dict(
            rule='exhaustive histories over the op alphabet (Set/Update/Delete incl. absent key/Filter x6/Map x4) up to a '
                 'length bound on all three generated maps at once + random long histories + exhaustive string-set '
                 'histories; each followed by observation ops (items via Each and MarshalJSON, Len, Get, Has, Find, Each). '
                 'non-trivial = contains a Set and at least one Delete/Filter/Map/Update (sset: at least one Add)',
            trusted=['Coq 8.16.1 kernel (vm_compute not needed by these proofs)',
                     'hand-written model coq/Model/OMap.v tied to the code by correspondence (extracted OCaml vs real containers)',
                     'extraction: ExtrOcamlBasic only; ocaml/modelrun.ml driver',
                     'harness adapters cmd/implrun/omap.go (int <-> key/value conversions, callback families)',
                     'python reference dictionary in lib/props/c19.py (oracle only)',
                     'encoding/json for value encoding inside MarshalJSON (model parameter enc_key/enc_val)'],
            assumptions=['callbacks are pure functions of (key, value)', 'mutex behaviour is C11, not C19'],
            explanation='Theorems: model of generated containers refines insertion-ordered dict for ALL histories and callbacks; '
                        'tie: model vs real code on enumerated histories')
