"""C12 - JSON document scanner: accepts exactly RFC 8259; lexemes rebuild the document; Len."""
import json, re
from vf import Case, run_model

SYMS = [' ', '\n', '{', '}', '[', ']', ',', ':', '"', '\\', '-', '+', '.', '0', '1', 'e', 'E',
        'true', 'false', 'null', 't', 'a', 'u', 'l', '\u00e9', '\x01', 'x', '/']
WS = ' \t\n\r'
OPEN = {0: 1, 2: 3, 4: 5, 6: 7, 8: 9, 10: 11}   # opening type -> closing type
NAMES = {0: 'LiteralBegin', 1: 'LiteralEnd', 2: 'ObjectBegin', 3: 'ObjectEnd', 4: 'KeyBegin', 5: 'KeyEnd', 6: 'ValueBegin',
         7: 'ValueEnd', 8: 'ArrayBegin', 9: 'ArrayEnd', 10: 'ItemBegin', 11: 'ItemEnd', 27: 'EndTop'}


def hx(b):
    return b.hex() or '-'


def enc(s):
    return s.encode('utf-8')


def _noconst(x):
    raise ValueError('constant ' + x)


DEC = json.JSONDecoder(parse_constant=_noconst, strict=True)


def rfc_value_at(text, i):
    """independent decoder: parses one JSON value at text[i:], returns (value, end) or None"""
    try:
        return DEC.raw_decode(text, i)
    except (ValueError, RecursionError):
        return None


def rfc_valid(text):
    i = 0
    while i < len(text) and text[i] in WS:
        i += 1
    r = rfc_value_at(text, i)
    if r is None:
        return None
    v, e = r
    j = e
    while j < len(text) and text[j] in WS:
        j += 1
    return (v, i, e, j == len(text))


def rebuild(text_bytes, lexemes):
    """tree from the lexeme stream; raises ValueError when the stream is not well formed"""
    n = len(text_bytes)
    stack, out = [], []
    root = []

    def tok(b, e):
        if not (0 <= b <= e < n):
            raise ValueError('span [%d:%d] outside the content of %d bytes' % (b, e, n))
        t = text_bytes[b:e + 1].decode('utf-8', 'surrogatepass')
        r = rfc_value_at(t, 0)
        if r is None or r[1] != len(t) or isinstance(r[0], (dict, list)):
            raise ValueError('lexeme [%d:%d] %r is not exactly one scalar token' % (b, e, t))
        return r[0]
    cur = [('top', root)]
    for (t, b, e) in lexemes:
        if t == 27:
            continue
        if not (0 <= b <= e < n):
            raise ValueError('span [%d:%d] outside the content of %d bytes' % (b, e, n))
        if t in OPEN:
            stack.append((t, b))
            if t == 2:
                cur.append(('obj', []))
            elif t == 8:
                cur.append(('arr', []))
            continue
        if not stack or OPEN[stack[-1][0]] != t or stack[-1][1] != b:
            raise ValueError('closing %s [%d:%d] does not match the open lexeme %r' % (NAMES.get(t, t), b, e, stack[-1:] ))
        stack.pop()
        if t == 1:
            cur[-1][1].append(('lit', tok(b, e)))
        elif t == 5:
            k = tok(b, e)
            if not isinstance(k, str):
                raise ValueError('key is not a string')
            cur[-1][1].append(('key', k))
        elif t == 3:
            kind, items = cur.pop()
            d, it = [], iter(items)
            for x in it:
                if x[0] != 'key':
                    raise ValueError('object member without key')
                v = next(it)
                d.append((x[1], v[1]))
            cur[-1][1].append(('val', ('obj', d)))
        elif t == 9:
            kind, items = cur.pop()
            cur[-1][1].append(('val', ('arr', [x[1] for x in items])))
    if stack:
        raise ValueError('unclosed lexemes %r' % stack)
    if len(root) != 1:
        raise ValueError('%d top-level values' % len(root))
    return root[0][1]


def norm(v):
    if isinstance(v, dict):
        raise AssertionError
    if isinstance(v, list):
        return ('arr', [norm(x) for x in v])
    return v


class PairsDecoder(json.JSONDecoder):
    pass


def decode_pairs(text):
    def hook(pairs):
        return ('obj', [(k, v) for k, v in pairs])

    def conv(v):
        if isinstance(v, tuple) and v[0] == 'obj':
            return ('obj', [(k, conv(x)) for k, x in v[1]])
        if isinstance(v, list):
            return ('arr', [conv(x) for x in v])
        return v
    d = json.JSONDecoder(object_pairs_hook=hook, parse_constant=_noconst, strict=True)
    return d, conv


PD, CONV = decode_pairs('')


def gen_value(rng, depth):
    k = rng.random()
    if depth <= 0 or k < 0.45:
        return rng.choice(['0', '-0', '12', '-1.5', '0.10', '1e5', '2E-3', '1.5e+2', 'true', 'false', 'null', '""', '"a"',
                           '"\\n\\u00e9\\\\\\"\\/"', '"\u00e9x"', '"\\ud83d\\ude00"', '"a b"', '100', '-7'])
    ws = lambda: rng.choice(['', '', ' ', '\n', '\t ', '\r\n'])
    if k < 0.75:
        n = rng.randint(0, 3)
        return '[' + ws() + (',' + ws()).join(gen_value(rng, depth - 1) + ws() for _ in range(n)) + ']'
    n = rng.randint(0, 3)
    keys = ['"k%d"' % i for i in range(n)]
    if n and rng.random() < 0.3:
        keys[0] = rng.choice(['"a\\"b"', '""', '"\\u0041"', '"k0"'])
    return '{' + ws() + (',' + ws()).join(k2 + ws() + ':' + ws() + gen_value(rng, depth - 1) + ws() for k2 in keys) + '}'


def in_string(b, i):
    """byte i of the JSON text b lies inside a string literal"""
    ins, esc = False, False
    for j in range(i):
        c = b[j]
        if esc:
            esc = False
        elif ins and c == 0x5c:
            esc = True
        elif c == 0x22:
            ins = not ins
    return ins


class Prop:
    id = 'C12'
    level = 'proof'
    theorems_file = 'Properties/C12.v'
    exhaustive_note = ''

    def cases(self, tier, rng):
        cs = []
        seen = set()

        def add(b, allow, klass):
            line = 'json %d %s' % (allow, hx(b))
            if line not in seen:
                seen.add(line)
                cs.append(Case(line, klass))
        # breadth-first over the token alphabet with viable-prefix pruning computed by the model
        maxlen = 5 if tier == 'quick' else 7
        cap = 40000 if tier == 'quick' else 400000
        alive = ['']
        levels = {}
        exhaustive_to = 0
        for n in range(1, maxlen + 1):
            cand = [p + s for p in alive for s in SYMS]
            sampled = False
            if len(cand) > cap:
                cand = rng.sample(cand, cap)
                sampled = True
            lines = ['json 0 ' + hx(enc(c)) for c in cand]
            res = run_model(lines)
            nxt = []
            for c, r in zip(cand, res):
                add(enc(c), 0, 'bfs-len%d' % n)
                add(enc(c), 1, 'bfs-len%d' % n)
                if 'L=err:301' not in r and 'panic' not in r:
                    nxt.append(c)
            alive = nxt
            levels[n] = len(cand)
            if not sampled:
                exhaustive_to = n
        add(b'', 0, 'bfs-len0'); add(b'', 1, 'bfs-len0')
        self.exhaustive_note = ('all strings of up to %d tokens over the %d-symbol alphabet, dead prefixes (model error 301) '
                                'not extended; levels %r' % (exhaustive_to, len(SYMS), levels))
        ndoc = 1500 if tier == 'quick' else 30000
        for _ in range(ndoc):
            lead = rng.choice(['', '', ' ', '\n\n', '\t'])
            trail = rng.choice(['', '', ' ', '\n', ' \r\n '])
            doc = lead + gen_value(rng, rng.randint(0, 4)) + trail
            b = enc(doc)
            add(b, 0, 'doc'); add(b, 1, 'doc')
            # every truncation
            if len(b) <= 60:
                for k in range(len(b)):
                    add(b[:k], 0, 'doc-truncated')
            # single-byte mutations
            for _ in range(3):
                if not b:
                    break
                k = rng.randrange(len(b))
                m = bytes([rng.choice(b' \n{}[],:"\\-+.01eEtrufalsn/x\x01\xc3')])
                add(b[:k] + m + b[k + 1:], rng.randint(0, 1), 'doc-mutated')
            # one separator too many or too few: a comma (with blanks) before a closing bracket, after an opening one, doubled, dropped;
            # a colon doubled or dropped (structure bytes outside strings are found by position in the generated text)
            struct = [i for i, c in enumerate(b) if c in b'{}[],:' and not in_string(b, i)]
            for i in rng.sample(struct, min(len(struct), 6)):
                c = b[i:i + 1]
                if c in b'}]':
                    add(b[:i] + rng.choice([b',', b', ', b',\n']) + b[i:], 0, 'doc-separators')
                elif c in b'{[':
                    add(b[:i + 1] + b',' + b[i + 1:], 0, 'doc-separators')
                else:
                    add(b[:i] + c + b[i:], 0, 'doc-separators')
                    add(b[:i] + b[i + 1:], 0, 'doc-separators')
            # trailing garbage with the option
            add(b + rng.choice([b'x', b' x', b'{', b'1', b'.5', b'e1', b'\x00', b',', b'//c']), 1, 'doc-trailer')
        return cs

    def project(self, out):
        return out.split(' AGAIN=')[0]

    def nontrivial(self, c):
        return len(c.line.split(' ')[2]) > 4

    def oracle(self, case, out):
        t = case.line.split(' ')
        allow = t[1] == '1'
        b = b'' if t[2] == '-' else bytes.fromhex(t[2])
        if 'panic' in out or 'TOOLCRASH' in out or 'rawerr' in out:
            return 'scanner does not return a diagnostic: ' + out
        if ' AGAIN=' in out:
            return 'Check() of the same Document answers differently after %s (%s), first asked it answers %s' % (
                out.split(' AGAIN=')[1].split(':')[0], out.split(' AGAIN=')[1].split(':', 1)[1][:40], re.search(r'C=(\S+)', out).group(1))
        m = re.match(r'L=(\S+) C=(\S+) N=(\S+)\Z', out)
        if not m:
            return 'unreadable result ' + out
        L, C, N = m.groups()
        try:
            text = b.decode('utf-8')
        except UnicodeDecodeError:
            return None   # not a text: outside the statement (RFC 8259 texts are UTF-8)
        r = rfc_valid(text)
        accepted = (C == 'ok')
        if not allow:
            should = r is not None and r[3]
            if accepted != should:
                return 'Check() %s a text that %s a single RFC 8259 value with optional whitespace: %r' % (
                    'accepts' if accepted else 'rejects', 'is' if should else 'is not', text)
        else:
            if r is None:
                if accepted:
                    return 'with trailing option: accepted although no JSON value starts the text: %r' % text
            else:
                v, i, e, clean = r
                rest = text[e:]
                number = not isinstance(v, (dict, list, str, bool)) and v is not None
                corner = number and rest[:1] in ('.', 'e', 'E')
                if not corner and not accepted:
                    return 'with trailing option: rejected a JSON value followed by %r: %r' % (rest[:10], text)
        if not accepted:
            return None
        lex = [] if L == '-' else [tuple(int(x) for x in item.split(':')) for item in L.split(',')]
        try:
            tree = rebuild(b, lex)
        except ValueError as ex:
            return 'lexeme stream of an accepted document is not well formed: %s' % ex
        v, i, e, clean = r if r is not None else (None, 0, 0, False)
        if r is not None:
            try:
                ref = CONV(PD.raw_decode(text, i)[0])
            except (ValueError, RecursionError):
                ref = None
            if ref is not None and tree != ref:
                return 'tree rebuilt from the lexemes differs from the decoded document: %r vs %r' % (tree, ref)
            want = len(text[:e].encode('utf-8'))
            if N != str(want):
                return 'Len() = %s, the value ends at byte %d: %r' % (N, want, text)
        return None

    def shrink_candidates(self, case):
        t = case.line.split(' ')
        b = b'' if t[2] == '-' else bytes.fromhex(t[2])
        for k in range(len(b)):
            yield Case('json %s %s' % (t[1], hx(b[:k] + b[k + 1:])), 'shrunk')

    def describe(self):
        return dict(
            rule='breadth-first enumeration over a 28-symbol JSON token alphabet with viable-prefix pruning by the model (both '
                 'option values), generated documents (depth <= 4, all layouts of blanks) with every truncation, single-byte '
                 'mutations and trailers. non-trivial = more than 2 bytes',
            trusted=['Coq 8.16.1 kernel', 'hand-written model coq/Model/JsonScan.v tied to formats/json/scanner.go + json.go by '
                     'correspondence on lexeme stream, error code and index, Check verdict and Len',
                     'extraction + ocaml/modelrun.ml; harness cmd/implrun/jsondoc.go (hook kit.VerifHasIndex)',
                     'oracle: python json decoder (strict, no NaN/Infinity) as the independent RFC 8259 judge'],
            assumptions=['texts that are not UTF-8 are outside the statement and only compared model vs implementation',
                         'trailing option: a number directly followed by . e E is the excluded corner (DESIGN section 9, C12)'],
            explanation='model of the scanner with theorems (C12_iff: accepted exactly the RFC 8259 texts, both directions for all byte strings; trailing option sound and complete up to maximal munch on numbers; totality); tie by correspondence; encoding-independent oracle for validity, tree and Len')
