"""C01 - Check() verdict equals the rule semantics applied to the example values."""
import itertools, json, re
import vf
from fractions import Fraction
from vf import Case
from props.c10 import hx

VALUE_CODES = {'602', '603', '606', '607', '608', '609', '610', '611', '612', '613', '614', '615', '616', '204', '210', '1301', '1115'}
KINDS = ['integer', 'float', 'string', 'boolean', 'null']

# leaf = ('L', kind | 'any', [rule])     rule = ('min', text, excl) | ('max', text, excl) | ('precision', n) | ('minLength', n) | ('maxLength', n)
#                                                | ('enum', [literal text]) | ('nullable',) | ('const',)
# node = leaf | ('R', [alt])             alt = ('N', type name) | ('S', leaf)       (`type: "@t"` is ('R', [('N', t)]))
# a type = (example text, node)


def lit_kind(v):
    if v.startswith('"'):
        return 'string'
    if v in ('true', 'false'):
        return 'boolean'
    if v == 'null':
        return 'null'
    return 'float' if '.' in v else 'integer'


def strval(v):
    s = json.loads(v)
    return re.sub('[\ud800-\udfff]', '�', s)


def key(v):
    return ('s', strval(v)) if v.startswith('"') else ('l', v)


def frac_digits(v):
    if '.' not in v:
        return 0
    return len(v.split('.')[1].rstrip('0'))


# ---- the documented meaning of the rules (independent of the Coq model: exact rationals, decoded strings)
def sat_rule(r, v, own):
    n = r[0]
    if n == 'min':
        return Fraction(v) > Fraction(r[1]) if r[2] else Fraction(v) >= Fraction(r[1])
    if n == 'max':
        return Fraction(v) < Fraction(r[1]) if r[2] else Fraction(v) <= Fraction(r[1])
    if n == 'precision':
        return frac_digits(v) <= r[1]
    if n == 'minLength':
        return len(strval(v)) >= r[1]
    if n == 'maxLength':
        return len(strval(v)) <= r[1]
    if n == 'enum':
        return key(v) in [key(x) for x in r[1]]
    if n == 'const':
        # the value of a constant type is the type's own example
        return own is None or key(v) == key(own)
    return True


def sat_leaf(leaf, v, own=None, referenced=False):
    """own: the example of the type the rules belong to (None: the node itself / a rule-set of the node)"""
    kind, rules = leaf[1], leaf[2]
    if kind == 'any':
        return True
    names = [r[0] for r in rules]
    k = lit_kind(v)
    if v == 'null' and 'nullable' in names:
        return True
    if 'enum' not in names and k != kind:
        return False
    if any(r[0] in ('min', 'max', 'precision') for r in rules) and k not in ('integer', 'float'):
        return False
    if any(r[0] in ('minLength', 'maxLength') for r in rules) and k != 'string':
        return False
    return all(sat_rule(r, v, own) for r in rules)


def leaves(node, types, seen, own=None):
    """the alternatives a value may satisfy: rule-sets and the (transitively) named types that carry rules themselves,
    each with the example `const` compares with (own: the example of the node that carries these alternatives)"""
    out = []
    for a in node[1]:
        if a[0] == 'S':
            out.append((a[1], own))
        else:
            t = a[1]
            if t in seen or t not in types:
                continue
            seen.add(t)
            ex, n = types[t]
            if n[0] == 'A':
                continue
            out += [(n, ex)] if n[0] == 'L' else leaves(n, types, seen, ex)
    return out


def sat_node(node, v, types):
    if node[0] == 'A':
        return (node[2] is None or node[1] >= node[2]) and (node[3] is None or node[1] <= node[3])
    if node[0] == 'L':
        return sat_leaf(node, v)
    return any(sat_leaf(l, v, own, True) for l, own in leaves(node, types, set()))


def expected(root, types):
    """'ok' when every example satisfies the rules written next to it, else 'value'"""
    ok = sat_node(root[1], root[0], types) and all(sat_node(n, ex, types) for ex, n in types.values())
    return 'ok' if ok else 'value'


# ---- text
def leaf_rules(leaf, explicit_type):
    kind, rules = leaf[1], leaf[2]
    out = []
    if kind == 'any':
        return ['type: "any"']
    if explicit_type:
        out.append('type: "%s"' % kind)
    for r in rules:
        if r[0] in ('min', 'max'):
            out.append('%s: %s' % (r[0], r[1]))
            if r[2]:
                out.append('exclusive%s: true' % ('Minimum' if r[0] == 'min' else 'Maximum'))
        elif r[0] in ('precision', 'minLength', 'maxLength'):
            out.append('%s: %d' % (r[0], r[1]))
        elif r[0] == 'enum':
            out.append('enum: [%s]' % ', '.join(r[1]))
        elif r[0] == 'nullable':
            out.append('nullable: true')
        elif r[0] == 'const':
            out.append('const: true')
    return out


def node_text(ex, node, flag):
    if node[0] == 'A':
        rs = (['minItems: %d' % node[2]] if node[2] is not None else []) + (['maxItems: %d' % node[3]] if node[3] is not None else [])
        items = ''.join('  %d%s\n' % (i, ',' if i + 1 < node[1] else '') for i in range(node[1]))
        return '[' + ((' // {%s}' % ', '.join(rs)) if rs else '') + '\n' + items + ']'
    if node[0] == 'L':
        rs = leaf_rules(node, flag and ex != 'null')
    elif len(node[1]) == 1 and node[1][0][0] == 'N':
        rs = ['type: "@t%d"' % node[1][0][1]]
    else:
        alts = []
        for a in node[1]:
            alts.append('"@t%d"' % a[1] if a[0] == 'N' else '{%s}' % ', '.join(leaf_rules(a[1], True)))
        rs = ['or: [%s]' % ', '.join(alts)]
    return ex + ((' // {%s}' % ', '.join(rs)) if rs else '')


def tok_leaf(l):
    if l[1] == 'any':
        return ['Y']
    out = ['F', l[1][0], str(len(l[2]))]
    for r in l[2]:
        if r[0] in ('min', 'max'):
            out += ['m' if r[0] == 'min' else 'M', hx(r[1].encode()), '1' if r[2] else '0']
        elif r[0] == 'precision':
            out += ['p', str(r[1])]
        elif r[0] == 'minLength':
            out += ['l', str(r[1])]
        elif r[0] == 'maxLength':
            out += ['L', str(r[1])]
        elif r[0] == 'enum':
            out += ['e', str(len(r[1]))] + [hx(x.encode()) for x in r[1]]
        elif r[0] == 'nullable':
            out += ['n']
        else:
            out += ['c']
    return out


def tok_node(ex, node):
    if node[0] == 'A':
        return ['78', 'A', str(node[1]), '-' if node[2] is None else str(node[2]), '-' if node[3] is None else str(node[3])]
    out = [hx(ex.encode())]
    if node[0] == 'L':
        return out + ['V'] + tok_leaf(node)
    out += ['R', str(len(node[1]))]
    for a in node[1]:
        out += (['N', str(a[1])] if a[0] == 'N' else ['S'] + tok_leaf(a[1]))
    return out


NUMS = ['0', '-0', '-0.0', '0.0', '-0.00', '1', '5', '-5', '10', '5.0', '5.00', '4.9', '5.1', '4.99', '5.01', '0.1', '0.10', '0.11', '-0.1', '12345678901234567890',
        '12345678901234567891', '0.000000000000000000001', '99999999999999999999.9', '-1.50', '3.14']
STRS = ['""', '"a"', '"ab"', '"abc"', '"\\u0061"', '"\\u00e9"', '"é"', '"\\ud83d\\ude00"', '"a b"', '"1"', '"null"', '"\\n"', '"\\\\"']
OTHERS = ['true', 'false', 'null']


class Prop:
    id = 'C01'
    level = 'proof'
    theorems_file = 'Properties/C01.v'
    exhaustive_note = ''

    def mk(self, root, types, flag=False):
        def norm(exn):
            ex, n = exn
            if n[0] == 'A':
                return exn
            if n[0] == 'L' and n[1] != 'any' and (not flag or ex == 'null'):
                return (ex, ('L', lit_kind(ex), n[2]))
            return exn
        fl = flag
        root = norm(root)
        types = {t: norm(x) for t, x in types.items()}
        g = tok_node(root[0], root[1])
        for t in sorted(types):
            g += [';', str(t)] + tok_node(types[t][0], types[t][1])
        p = [hx(node_text(root[0], root[1], flag))]
        for t in sorted(types):
            p += ['T', hx('@t%d' % t), 'J', hx(node_text(types[t][0], types[t][1], flag))]
        return 'rules ' + ' '.join(g) + ' || ' + ' '.join(p)

    def cases(self, tier, rng):
        cs = []
        # every number against every bound, all four bound rules, both exclusivity values
        for v, b in itertools.product(NUMS, NUMS):
            k = lit_kind(v)
            for name in ('min', 'max'):
                for ex in (False, True):
                    cs.append(Case(self.mk((v, ('L', k, [(name, b, ex)])), {}), 'bound'))
        for v in NUMS:
            if '.' in v:
                for p in range(1, 5):
                    cs.append(Case(self.mk((v, ('L', 'float', [('precision', p)])), {}), 'precision'))
        for v in STRS:
            for n in range(0, 5):
                cs.append(Case(self.mk((v, ('L', 'string', [('minLength', n)])), {}), 'length'))
                cs.append(Case(self.mk((v, ('L', 'string', [('maxLength', n)])), {}), 'length'))
        allv = NUMS + STRS + OTHERS
        for v in allv:
            for k in range(1, 3):
                for items in itertools.combinations(['1', '5', '5.0', '"a"', '"\\u0061"', '"1"', 'true', 'null', '-0', '0'], k):
                    cs.append(Case(self.mk((v, ('L', lit_kind(v), [('enum', list(items))])), {}), 'enum'))
            for kind in KINDS:
                cs.append(Case(self.mk((v, ('L', kind, [])), {}, True), 'type'))
                cs.append(Case(self.mk((v, ('L', kind, [('nullable',)])), {}, True), 'nullable'))
            cs.append(Case(self.mk((v, ('L', lit_kind(v), [('const',)])), {}), 'const'))
            cs.append(Case(self.mk((v, ('L', 'any', [])), {}), 'any'))
        for cnt in range(0, 4):
            for mn in [None, 0, 1, 2, 3]:
                for mx in [None, 0, 1, 2, 3]:
                    if mn is not None and mx is not None and mn > mx:
                        continue
                    cs.append(Case(self.mk(('x', ('A', cnt, mn, mx)), {}), 'items'))
                    cs.append(Case(self.mk(('1', ('L', 'integer', [])), {1: ('x', ('A', cnt, mn, mx))}), 'items-in-type'))
        # a constant type met through a reference: the referring example is compared with the type's own example as VALUES
        # (another spelling of the same string - an escape - is the same value)
        cstr = STRS + ['"a/b"', '"a\\/b"', '"A"', '"\\u0041"', '"\\t"', '"\\u0009"']
        for group in (cstr, ['0', '-0', '1', '5', '5.0', '5.00', '10', '0.1', '0.10'], OTHERS):
            for own in group:
                for v in group:
                    if lit_kind(own) != lit_kind(v):
                        continue
                    t = {1: (own, ('L', lit_kind(own), [('const',)]))}
                    cs.append(Case(self.mk((v, ('R', [('N', 1)])), t), 'const-through-a-type'))
                    cs.append(Case(self.mk((v, ('R', [('S', ('L', 'boolean', [])), ('N', 1)])), t), 'const-through-a-type'))
        self.exhaustive_note = ('%d numbers x %d bounds x min/max x exclusive; precision 1-4; %d strings x lengths 0-4; every value against enum lists of 1-2 of 10 '
                                'entries, against every type, nullable, const, any' % (len(NUMS), len(NUMS), len(STRS)))

        # rules inside `or`, inside user types, inside user types referenced from `or` and from other types
        def rleaf(kind):
            rules = []
            if kind in ('integer', 'float'):
                pool = [x for x in NUMS if kind == 'float' or '.' not in x]
                if rng.random() < 0.7:
                    rules.append(('min', rng.choice(NUMS), rng.random() < 0.3))
                if rng.random() < 0.5:
                    lo = Fraction(rules[0][1]) if rules else None
                    hi = [x for x in NUMS if lo is None or Fraction(x) > lo]
                    if hi:
                        rules.append(('max', rng.choice(hi), rng.random() < 0.3))
                if kind == 'float' and rng.random() < 0.3:
                    rules.append(('precision', rng.randint(1, 3)))
            elif kind == 'string':
                a = rng.randint(0, 3)
                if rng.random() < 0.6:
                    rules.append(('minLength', a))
                if rng.random() < 0.5:
                    rules.append(('maxLength', a + rng.randint(0, 2)))
            if rng.random() < 0.08:
                return ('L', 'any', [])
            if rng.random() < 0.1:
                pool = ['1', '5', '5.0', '"a"', '"\\u0061"', '"1"', 'true', 'null', '-0', '0', '"ab"', '10']
                return ('L', kind, [('enum', rng.sample(pool, rng.randint(1, 3)))])
            if rng.random() < 0.15:
                rules.append(('nullable',))
            if rng.random() < 0.1:
                rules.append(('const',))
            return ('L', kind, rules)

        def rvalue(kind=None):
            kind = kind or rng.choice(KINDS)
            return rng.choice({'integer': [x for x in NUMS if '.' not in x], 'float': [x for x in NUMS if '.' in x], 'string': STRS,
                               'boolean': ['true', 'false'], 'null': ['null']}[kind])
        nrand = 8000 if tier == 'quick' else 150000
        for _ in range(nrand):
            nt = rng.randint(0, 4)
            types = {}
            for t in range(nt, 0, -1):
                later = [u for u in types]
                r = rng.random()
                if later and r < 0.4:
                    k = rng.randint(1, min(3, len(later) + 1))
                    alts = [('N', u) for u in rng.sample(later, min(len(later), k))]
                    if rng.random() < 0.4:
                        alts.insert(rng.randrange(len(alts) + 1), ('S', rleaf(rng.choice(KINDS))))
                    if len(alts) == 1 and alts[0][0] == 'S':
                        alts.append(('S', rleaf(rng.choice(KINDS))))
                    node = ('R', alts)
                    ex = rvalue()
                else:
                    kind = rng.choice(KINDS)
                    node = rleaf(kind)
                    # mostly a valid example of its own, so that the referencing node decides
                    ex = rvalue(kind)
                types[t] = (ex, node)
            names = list(types)
            r = rng.random()
            if names and r < 0.75:
                k = rng.randint(1, min(3, len(names)))
                alts = [('N', u) for u in rng.sample(names, k)]
                if rng.random() < 0.4 or (len(alts) == 1 and rng.random() < 0.3):
                    alts.insert(rng.randrange(len(alts) + 1), ('S', rleaf(rng.choice(KINDS))))
                root = (rvalue(), ('R', alts))
            elif r < 0.9:
                alts = [('S', rleaf(rng.choice(KINDS))) for _ in range(rng.randint(2, 3))]
                root = (rvalue(), ('R', alts))
            else:
                kind = rng.choice(KINDS)
                root = (rvalue() if rng.random() < 0.3 else rvalue(kind), rleaf(kind))
            cs.append(Case(self.mk(root, types, rng.random() < 0.5), 'project-%dtypes' % nt))
        # the built-in string formats: texts clearly inside and clearly outside each format (lib/oracles/formats.py), as the type
        # of the example, as an alternative of `or` (name and rule-set), and through a registered type of that format
        import sys as _sys, os as _os, json as _json
        _sys.path.insert(0, _os.path.join(vf.ROOT, 'lib', 'oracles'))
        import formats as _formats
        from props.c10 import spec as _spec
        SAMPLE = {'uuid': '"550e8400-e29b-41d4-a716-446655440000"', 'date': '"2021-01-02"', 'datetime': '"2021-01-02T07:23:12Z"', 'email': '"a@b.c"', 'uri': '"http://a.b/c"'}
        for fmt, text, valid in _formats.cases():
            lit = _json.dumps(text, ensure_ascii=False)
            want = 'ok' if valid else 'value'
            cs.append(Case('corj %s || %s' % (want, _spec('%s // {type: "%s"}' % (lit, fmt))), 'string-formats'))
            cs.append(Case('corj %s || %s' % (want, _spec('{\n  "k": %s // {or: ["%s", "integer"]}\n}' % (lit, fmt))), 'string-formats'))
            cs.append(Case('corj %s || %s' % (want, _spec('[\n  %s // {or: [{type: "boolean"}, {type: "%s"}]}\n]' % (lit, fmt))), 'string-formats'))
            cs.append(Case('corj %s || %s' % (want, _spec('%s // {type: "@f"}' % lit, {'@f': '%s // {type: "%s"}' % (SAMPLE[fmt], fmt)})), 'string-formats'))
        # regex: the expression is searched in the decoded string (not anchored unless it says so)
        for rx, text, valid in [('^a', 'abc', True), ('^b', 'abc', False), ('[0-9]+', 'x1', True), ('^[0-9]+$', 'x1', False), ('^[0-9]+$', '123', True), ('a|b', 'c', False),
                                ('a|b', 'xbx', True), ('.', '', False), ('^$', '', True), ('^.{3}$', 'aé€', True), ('^.{3}$', 'aé', False), ('\\\\d{2}', 'a12', True), ('\\\\d{2}', 'a1b2', False),
                                ('^[a-c]+$', 'abcabc', True), ('^[a-c]+$', 'abd', False), ('(?i)^x$', 'X', True), ('^x$', 'X', False), ('^a.c$', 'a\\nc', False), ('\\\\.', 'a.b', True), ('\\\\.', 'ab', False)]:
            lit = _json.dumps(text.replace('\\n', '\n'), ensure_ascii=False)
            want = 'ok' if valid else 'value'
            cs.append(Case('corj %s || %s' % (want, _spec('%s // {regex: "%s"}' % (lit, rx))), 'regex-rule'))
            cs.append(Case('corj %s || %s' % (want, _spec('{\n  "k": %s // {or: [{type: "string", regex: "%s"}, "integer"]}\n}' % (lit, rx))), 'regex-rule'))
            cs.append(Case('corj %s || %s' % (want, _spec('%s // {type: "@r"}' % lit, {'@r': '/%s/' % rx.replace('\\\\', '\\')})), 'regex-rule'))
        # empty containers with an `or` rule: the example's json type has to be among the alternatives' - whatever was
        # checked before (other members, registered types, references to enum / any types)
        from props.c10 import spec
        good = ['[] // {or: [{type: "array"}, {type: "integer"}]}', '{} // {or: ["object", "string"]}', '@t', '@t | @n', '1 // {type: "@e"}', '"x" // {type: "@y"}',
                '1 // {or: ["@e", "string"]}', '[\n    1\n  ]', '5']
        bad = [('[] // {or: [{type: "string"}, {type: "integer"}]}', True), ('{} // {or: ["string", "integer"]}', True), ('[] // {or: ["object", "integer"]}', True),
               ('{} // {or: [{type: "array"}, "boolean"]}', True), ('[] // {or: ["array", "integer"]}', False), ('{} // {or: [{type: "object"}, "null"]}', False)]
        types = {'@t': '[\n  1\n]', '@n': '{\n  "k": 1\n}', '@e': '1 // {enum: [1, 2]}', '@y': '"x" // {type: "any"}'}

        def member(text, last):
            if '\n' in text or text[0] in '[{' and len(text) > 2:       # a container written over lines / with its rule after the bracket
                if ' // ' in text and text[:2] in ('[]', '{}'):
                    return text[0] + text[2:] + '\n  ' + text[1] + ('' if last else ',')
                return text + ('' if last else ',')
            v, _, ann = text.partition(' // ')
            return v + ('' if last else ',') + ((' // ' + ann) if ann else '')
        for g in good:
            for b, isbad in bad:
                for order in ((g, b), (b, g)):
                    root = '{\n  "p": %s\n  "q": %s\n}' % (member(order[0], False), member(order[1], True))
                    cs.append(Case('corj %s || %s' % ('value' if isbad else 'ok', spec(root, types)), 'container-or'))
                # the bad node inside a registered type, the widening node in the root (types are checked after the root)
                tt = dict(types)
                tt['@z'] = '{\n  "q": %s\n}' % member(b, True)
                cs.append(Case('corj %s || %s' % ('value' if isbad else 'ok', spec('{\n  "p": %s\n  "r": @z\n}' % member(g, False), tt)), 'container-or'))
        for b, isbad in bad:
            cs.append(Case('corj %s || %s' % ('value' if isbad else 'ok', spec(member(b, True) if not b.startswith(('[', '{')) else b[0] + b[2:] + '\n' + b[1], types)), 'container-or'))
        return cs

    def parse(self, line):
        g = line.split(' || ')[0].split(' ')[1:]
        pos = [0]
        KN = {'i': 'integer', 'f': 'float', 's': 'string', 'b': 'boolean', 'n': 'null'}

        def un(h):
            return bytes.fromhex(h).decode() if h != '-' else ''

        def leaf():
            t = g[pos[0]]; pos[0] += 1
            if t == 'Y':
                return ('L', 'any', [])
            kind = KN[g[pos[0]]]; n = int(g[pos[0] + 1]); pos[0] += 2
            rules = []
            for _ in range(n):
                c = g[pos[0]]; pos[0] += 1
                if c in 'mM':
                    rules.append(('min' if c == 'm' else 'max', un(g[pos[0]]), g[pos[0] + 1] == '1')); pos[0] += 2
                elif c in 'plL':
                    rules.append(({'p': 'precision', 'l': 'minLength', 'L': 'maxLength'}[c], int(g[pos[0]]))); pos[0] += 1
                elif c == 'e':
                    k = int(g[pos[0]]); pos[0] += 1
                    rules.append(('enum', [un(x) for x in g[pos[0]:pos[0] + k]])); pos[0] += k
                elif c == 'n':
                    rules.append(('nullable',))
                else:
                    rules.append(('const',))
            return ('L', kind, rules)

        def node():
            ex = un(g[pos[0]]); k = g[pos[0] + 1]; pos[0] += 2
            if k == 'A':
                o = lambda x: None if x == '-' else int(x)
                r = (ex, ('A', int(g[pos[0]]), o(g[pos[0] + 1]), o(g[pos[0] + 2]))); pos[0] += 3
                return r
            if k == 'V':
                return (ex, leaf())
            n = int(g[pos[0]]); pos[0] += 1
            alts = []
            for _ in range(n):
                a = g[pos[0]]; pos[0] += 1
                if a == 'N':
                    alts.append(('N', int(g[pos[0]]))); pos[0] += 1
                else:
                    alts.append(('S', leaf()))
            return (ex, ('R', alts))
        root = node()
        types = {}
        while pos[0] < len(g) and g[pos[0]] == ';':
            t = int(g[pos[0] + 1]); pos[0] += 2
            types[t] = node()
        return root, types

    @staticmethod
    def klass(out):
        if out == 'ok':
            return 'ok'
        m = re.match(r'build=addtype:err:\d+@-?\d+/(\d+)', out) or re.match(r'err:(\d+)', out)
        if m:
            return 'value' if m.group(1) in VALUE_CODES else 'other:' + m.group(1)
        return out

    def project(self, out):
        k = self.klass(out)
        return 'other' if k.startswith('other') else k

    def project_model(self, out):
        return out

    def model_lines(self, lines, impl):
        # rule sets the compiler refuses as ill-formed are outside the model (and the statement); so are the container cases
        return [l if (self.project(o) in ('ok', 'value') and not l.startswith('corj ')) else None for l, o in zip(lines, impl)]

    def nontrivial(self, c):
        return True

    def run_impl(self, lines):
        import vf
        return vf.run_impl(['proj check ' + l.split(' || ')[1] for l in lines])

    def oracle(self, case, out):
        if 'panic' in out or 'TOOLCRASH' in out:
            return 'crash: ' + out[:160]
        k = self.klass(out)
        if k.startswith('other') or k not in ('ok', 'value'):
            self.others[k] = self.others.get(k, 0) + 1
            return None            # rejected because the rule set itself is ill-formed: outside the statement
        if case.line.startswith('corj '):
            want = case.line.split(' ')[1]
        else:
            root, types = self.parse(case.line)
            want = expected(root, types)
        self.verdicts[want] = self.verdicts.get(want, 0) + 1
        if want != k:
            return 'examples %s the rules, Check() says %s' % ('satisfy' if want == 'ok' else 'break', out[:40])
        return None

    others = {}
    verdicts = {}

    def more_evidence(self):
        return dict(expected_verdicts=dict(self.verdicts), rejected_for_other_reasons=dict(self.others))

    def describe(self):
        return dict(
            rule='literal nodes with rules: every number of a pool of 22 (boundary values, trailing zeros, -0, 20-digit, tiny fractions) against every '
                 'bound for min/max with both exclusivity values; precision; string lengths incl. escapes, non-ASCII and astral characters; enum lists '
                 '(escapes equal to other entries, 5 vs 5.0); every value against every type; nullable, const, any; random projects of 0-4 user types with '
                 'the rules inside `or` rule-sets, inside user types, and inside user types referenced from `or` and from other types',
            trusted=['Coq 8.16.1 kernel', 'model coq/Model/RuleSem.v tied by correspondence on the verdict class (accepted / rejected for a value reason)',
                     'text printer and the exact-rational oracle in lib/props/c01.py', 'extraction, driver, harness'],
            assumptions=['regex is judged on a list of expressions and strings with obvious outcomes, not modelled; the built-in string formats are judged by reference predicates (lib/oracles/formats.py) on texts clearly inside or outside each format, not modelled in Coq', 'rule sets the compiler refuses as ill-formed (other error codes) are outside the '
                         'statement and are only counted', 'string length = number of characters (code points)'],
            explanation='rule semantics model with theorems; correspondence on boundary grids and random projects; independent exact oracle')
