"""C11 - concurrent use is race-free and gives the sequential results (race detector + result comparison)."""
import os, re, subprocess
import vf
from vf import Case
import samples
from props.c10 import spec, hx


def units_pool():
    us = [('P ' + spec(s)) for s in samples.SCHEMAS]
    us += [('P ' + spec(r, t)) for r, t in samples.TYPED_SCHEMAS]
    us.append('P ' + spec('"x" // {enum: @e}', None, {'@e': '["x", "y"]'}))
    us += ['P ' + spec(x) for x in ['{"a": @missing}', '{"a": 1,', '{\n "a": 1 // {min: 2}\n}', '[1, 2', '"a" // {regex: "["}']]
    # free text before the first value: the loader handles it before any node of this schema exists
    us += ['P ' + spec(x) for x in ['// note\n{\n  "a": 1\n}', '/* header */ 42', '# remark\n[\n  1, // one\n  2\n]', '// only a note']]
    us += ['R ' + hx(r) for r in samples.REGEXES + ['/[/', 'x']]
    us += ['E ' + hx(e) for e in samples.ENUMS + ['[1, 1]', '[1']]
    us += ['J ' + hx(j) for j in samples.JSONS + ['{"a":', '[1 2]']]
    us += ['N ' + hx(n) for n in ['1', '-0.50', '1e3', '"a.b"', 'x', '12.5E-2']]
    return us


RACE = re.compile(r'WARNING: DATA RACE\n(.*?)\n==================', re.S)


def race_signature(block):
    """the two top source locations under /repo of a race report"""
    locs = re.findall(r'\n\s+(/repo/[^\s]+:\d+)', block)
    top = []
    for part in re.split(r'\n\n', block):
        m = re.search(r'\n\s+(/repo/[^\s]+:\d+)', '\n' + part)
        if m:
            top.append(m.group(1).replace('/repo/', ''))
        if len(top) == 2:
            break
    return ' <-> '.join(top) if top else 'unlocated'


class Prop:
    id = 'C11'
    level = 'other'
    theorems_file = 'Properties/C11.v'
    gen_tables = ['PoolSites']
    uses_model = False
    needs_race = True
    exhaustive_note = ''

    def __init__(self):
        self.races = {}
        self.calls = 0

    def cases(self, tier, rng):
        pool = units_pool()
        proj = [u for u in pool if u.startswith('P ')]
        runs = 10 if tier == 'quick' else 120
        iters = 120 if tier == 'quick' else 600
        cs = []
        for r in range(runs):
            G = rng.choice([2, 4, 16])
            procs = rng.choice([1, 2, 4, 16])
            us = rng.sample(pool, 10)
            cs.append(Case('conc own %d %d %d %d ;; %s' % (G, iters, procs, rng.randrange(10 ** 6), ' ; '.join(us)), 'own-objects'))
            notes = [u for u in pool if u.startswith('P 2f2f') or u.startswith('P 2f2a') or u.startswith('P 23')]
            us = notes + rng.sample(proj, 6)
            cs.append(Case('conc own %d %d %d %d ;; %s' % (G, iters, procs, rng.randrange(10 ** 6), ' ; '.join(us)), 'own-objects-with-notes'))
            us = rng.sample(proj, 6)
            cs.append(Case('conc shared %d %d %d %d ;; %s' % (G, iters, procs, rng.randrange(10 ** 6), ' ; '.join(us)), 'shared-object'))
            # regex schemas are schema objects too: the same six operations on shared regex objects next to shared projects
            rx = [u for u in pool if u.startswith('R ')]
            us = rng.sample(rx, min(4, len(rx))) + rng.sample(proj, 2)
            cs.append(Case('conc shared %d %d %d %d ;; %s' % (G, iters, procs, rng.randrange(10 ** 6), ' ; '.join(us)), 'shared-regex-object'))
        return cs

    def run_impl(self, lines):
        exe = os.path.join(vf.HARNESS, 'bin', 'implrun-race')
        env = dict(os.environ, GORACE='halt_on_error=0')
        outs = []
        for l in lines:   # one process per case so that race reports can be attributed to it
            p = subprocess.run([exe], input=l + '\n', stdout=subprocess.PIPE, stderr=subprocess.PIPE, text=True, env=env, timeout=900)
            o = p.stdout.strip().split('\n')[-1] if p.stdout.strip() else 'TOOLCRASH rc=%d' % p.returncode
            blocks = RACE.findall(p.stderr)
            sigs = sorted(set(race_signature(b) for b in blocks))
            for s in sigs:
                self.races[s] = self.races.get(s, 0) + 1
            t = l.split(' ')
            self.calls += int(t[2]) * int(t[3])
            outs.append(o + ' races=%d %s' % (len(blocks), '|'.join(sigs).replace(' ', '')))
        return outs

    def project(self, out):
        return out

    def nontrivial(self, c):
        return True

    def oracle(self, case, out):
        if 'TOOLCRASH' in out or 'panic' in out:
            return 'the concurrent run crashed: ' + out[:200]
        m = re.match(r'mismatch=(\d+) first=(\S*) races=(\d+) ?(.*)', out)
        if not m:
            return 'unreadable result ' + out[:200]
        if int(m.group(3)) > 0:
            return 'data race reported by the race detector: ' + m.group(4)[:300]
        if int(m.group(1)) > 0:
            return 'a concurrent result differs from the sequential result: ' + m.group(2)[:200]
        return None

    def more_evidence(self):
        return dict(concurrent_calls=self.calls, race_signatures=self.races,
                    explanation='level other: decided by the race detector and by comparing every concurrent result with the '
                                'sequential one; theorems: ErrOnce runs once under any arrival order, a storage-returning pool site is '
                                'overwritten under an interleaving (witness), all pool sites of the current tree copy (regenerated).')

    def describe(self):
        return dict(
            rule='race-detector build of the harness; N in {2,4,16} goroutines x GOMAXPROCS in {1,2,4,16}; (a) each goroutine works on '
                 'its own schema projects / regex / enum rule / JSON document / number objects drawn at random from accepted and '
                 'rejected inputs, (b) the six read operations called concurrently on shared schema objects; every result is compared '
                 'with the sequential one; race reports are grouped by their two source locations',
            trusted=['Go race detector (-race) and the schedules it happens to see', 'harness cmd/implrun/conc.go', 'Coq kernel for the model-level theorems',
                     'translator gotables PoolSites'],
            assumptions=['a Gallina model cannot exhibit a data race on real memory: unsynchronised accesses are only seen under the explored schedules'],
            explanation='race detector + sequential comparison; model-level theorems as support')
