"""C20 - type vocabulary helpers and type guessing."""
import itertools, os, re
from vf import Case

TYPES = ['', 'string', 'integer', 'float', 'decimal', 'boolean', 'object', 'array', 'null', 'email', 'uri', 'uuid',
         'date', 'datetime', 'enum', 'mixed', 'any', 'comment']
DOC = set(TYPES[1:])
WILD = {'enum', 'mixed', 'any'}
NUM = {'decimal', 'float'}
STR = {'string', 'email', 'uri', 'uuid', 'date', 'datetime'}


def family(t):
    return 'float' if t in NUM else 'string' if t in STR else t


def rel(a, b):
    return bool(a and b and (a in WILD or b in WILD or family(a) == family(b)))


def hx(s):
    return s.encode('latin-1').hex() or '-'


def unhx(h):
    return '' if h == '-' else bytes.fromhex(h).decode('latin-1')


NUMRE = re.compile(r'-?(0|[1-9][0-9]*)(\.[0-9]+)?\Z')
STRRE = re.compile(r'"([^"\\\x00-\x1f]|\\["\\/bfnrt]|\\u[0-9a-fA-F]{4})*"\Z')


def scanner_class(s):
    """what a JSON scalar literal without exponent (as the schema/enum scanners emit it), '{' or '[' is"""
    if s == '{':
        return 'object'
    if s == '[':
        return 'array'
    if s in ('true', 'false'):
        return 'boolean'
    if s == 'null':
        return 'null'
    if STRRE.match(s):
        return 'string'
    if NUMRE.match(s):
        return 'float' if '.' in s else 'integer'
    return None


class Prop:
    id = 'C20'
    level = 'proof'
    theorems_file = 'Properties/C20.v'
    gen_tables = ['TypeTables']
    exhaustive_note = ''

    def cases(self, tier, rng):
        cs = []
        for a in TYPES:
            for b in TYPES:
                cs.append(Case('guess S %s %s' % (a or '-', b or '-'), 'soft-pair'))
        for t in TYPES:
            for v in {t, t.upper(), t.capitalize(), t[:-1], t + 's', ' ' + t, t + ' ', '@' + t}:
                cs.append(Case('guess V ' + hx(v), 'valid-probe'))
        # directed search support: every name the regenerated tables mention is probed on the implementation,
        # so that a table entry that breaks a theorem is also a concrete failing input
        gen = os.path.join(os.path.dirname(os.path.dirname(os.path.dirname(os.path.abspath(__file__)))), 'coq', 'Gen', 'TypeTables.v')
        if os.path.exists(gen):
            names = sorted(set(re.findall(r'"((?:[^"]|"")*)"', open(gen).read())))
            for v in names:
                v = v.replace('""', '"')
                cs.append(Case('guess V ' + hx(v), 'valid-probe-from-tables'))
            m = re.search(r'Definition schema_types : list string := \[(.*?)\]\.', open(gen).read(), re.S)
            if m:
                gt = [x.replace('""', '"') for x in re.findall(r'"((?:[^"]|"")*)"', m.group(1))]
                for a in gt:
                    for b in gt:
                        if (a not in TYPES or b not in TYPES) and re.fullmatch(r'[A-Za-z0-9_]*', a + b):
                            cs.append(Case('guess S %s %s' % (a or '-', b or '-'), 'soft-pair-from-tables'))
        alpha = '"a.e10-trufalsn{[\\@'
        alpha = ''.join(dict.fromkeys(alpha))
        maxlen = 4 if tier == 'quick' else 5
        for n in range(0, maxlen + 1):
            for t in itertools.product(alpha, repeat=n):
                cs.append(Case('guess G ' + hx(''.join(t)), 'guess-exh-len%d' % n))
        self.exhaustive_note = 'all %d x %d type pairs; all literals of length <= %d over the alphabet %r' % (
            len(TYPES), len(TYPES), maxlen, alpha)
        nrand = 3000 if tier == 'quick' else 60000
        for _ in range(nrand):
            k = rng.random()
            if k < 0.4:  # quoted strings with dots / exponent letters / digits
                body = ''.join(rng.choice('ab.eE0123-+ ') for _ in range(rng.randint(0, 12)))
                s = '"' + body + '"'
            elif k < 0.8:
                s = str(rng.randint(-10 ** 6, 10 ** 6))
                if rng.random() < 0.6:
                    s += '.' + ''.join(rng.choice('0123456789') for _ in range(rng.randint(1, 6)))
                if rng.random() < 0.3:
                    s += rng.choice('eE') + str(rng.randint(-20, 20))
            else:
                s = rng.choice(['true', 'false', 'null', '{', '[', '@t', '@a-b_1', 'tru', 'nul', '{}', '[]', '""', '"', '@'])
            cs.append(Case('guess G ' + hx(s), 'guess-random'))
        return cs

    def project(self, out):
        return out

    def nontrivial(self, c):
        t = c.line.split(' ')
        if t[1] == 'G':
            return scanner_class(unhx(t[2])) is not None
        return True

    def oracle(self, case, out):
        t = case.line.split(' ')
        if out.startswith('panic') or out.startswith('TOOLCRASH') or 'panic:' in out:
            return 'helper does not return: ' + out
        if t[1] == 'S':
            a, b = ('' if x == '-' else x for x in t[2:4])
            ab, ba = out.split(' ')
            if a == b and a and ab != '1':
                return 'soft equality not reflexive on %r' % a
            if ab != ba:
                return 'soft equality not symmetric: %s~%s=%s but %s~%s=%s' % (a, b, ab, b, a, ba)
            constrained = (a != 'comment' and b != 'comment') or (a == b == 'comment')
            if constrained and (ab == '1') != rel(a, b):
                return 'soft equality of %r and %r is %s, documented families say %s' % (a, b, ab, rel(a, b))
            return None
        if t[1] == 'V':
            s = unhx(t[2])
            if (out == '1') != (s in DOC):
                return 'IsValidType(%r) = %s' % (s, out)
            return None
        s = unhx(t[2])
        m = re.match(r's=(\S*) j=(\S*)\Z', out)
        if not m:
            return 'unreadable result ' + out
        sg, jg = m.group(1), m.group(2)
        if '|' in sg or '|' in jg:
            return 'different answers for the same bytes %r: GuessSchemaType {%s} JsonType {%s}' % (s, sg, jg)
        cls = scanner_class(s)
        if cls is not None and sg != cls:
            return 'GuessSchemaType(%r) = %s, the literal is a %s' % (s, sg, cls)
        if jg in ('object', 'array', 'string', 'boolean', 'null', 'integer', 'float') and sg != jg:
            return 'GuessSchemaType(%r) = %s but the scanner classifier says %s' % (s, sg, jg)
        if jg not in ('object', 'array', 'string', 'boolean', 'null', 'integer', 'float') and not sg.startswith('err'):
            return 'GuessSchemaType(%r) = %s but the scanner classifier says %s' % (s, sg, jg)
        return None

    def shrink_candidates(self, case):
        t = case.line.split(' ')
        if t[1] != 'G':
            return
        s = unhx(t[2])
        for k in range(len(s)):
            yield Case('guess G ' + hx(s[:k] + s[k + 1:]), 'shrunk')

    def describe(self):
        return dict(
            rule='every ordered pair of the 18 schema types (soft equality both directions), IsValidType on the vocabulary and near '
                 'misses, GuessSchemaType and json.Guess(..).JsonType() 64 times each on all literals up to a length bound over a '
                 'literal alphabet plus random quoted strings / numbers / keywords. non-trivial = pair or probe case, or a text that is '
                 'a JSON scalar literal without exponent, "{" or "["',
            trusted=['Coq 8.16.1 kernel incl. vm_compute (proofs by computation over the regenerated finite tables)',
                     'translator harness/cmd/gotables (go/parser AST of type.go + evaluation of the compiled functions over the vocabulary)',
                     'hand-written model coq/Model/TypeGuess.v tied by correspondence; Model/Number.v (C13)',
                     'Spec/TypeVocab.v: documented names and families', 'extraction + ocaml/modelrun.ml; harness cmd/implrun/guess.go'],
            assumptions=['pairs involving the pseudo-type "comment" other than (comment, comment) are not constrained (DESIGN section 6)'],
            explanation='Tables regenerated from /repo on every run and re-proved; guesser model proved to agree with the scanner classifier on every byte string')
