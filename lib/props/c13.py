"""C13 - decimal numbers: grammar, exact comparison, String, fraction length."""
import itertools, re
from fractions import Fraction
from vf import Case

GRAMMAR = re.compile(r'-?(0|[1-9][0-9]*)(\.[0-9]+)?([eE][+-]?[0-9]+)?\Z')
EXP_CAP = 100000  # larger exponents are outside the property's quantifier (and allocate |exp| bytes)


def hx(s):
    return s.encode('latin-1').hex() or '-'


def unhx(h):
    return '' if h == '-' else bytes.fromhex(h).decode('latin-1')


def value(s):
    m = re.match(r'(-?)([0-9]+)(?:\.([0-9]+))?(?:[eE]([+-]?[0-9]+))?\Z', s)
    sign, ip, fp, ep = m.group(1), m.group(2), m.group(3) or '', int(m.group(4) or '0')
    v = Fraction(int(ip + fp), 10 ** len(fp)) * (Fraction(10) ** ep)
    return -v if sign else v


def norm(s):
    """(sign, significant digits, power of ten of the last digit) - the value without computing it"""
    m = re.match(r'(-?)([0-9]+)(?:\.([0-9]+))?(?:[eE]([+-]?[0-9]+))?\Z', s)
    sign, ip, fp, ep = m.group(1), m.group(2), m.group(3) or '', int(m.group(4) or '0')
    d = (ip + fp).lstrip('0')
    e10 = ep - len(fp)
    if not d:
        return ('', '', 0)
    k = len(d) - len(d.rstrip('0'))
    return (sign, d.rstrip('0'), e10 + k)


def exp_of(s):
    m = re.search(r'[eE]([+-]?[0-9]+)\Z', s)
    return int(m.group(1)) if m else 0


def frac_digits(v):
    k = 0
    while (v * 10 ** k).denominator != 1:
        k += 1
    return k


def small_numbers():
    """an exhaustive small-scope set: every sign/zero/trailing-zero/exponent-shift variant of a few values"""
    out = []
    ints = ['0', '1', '5', '9', '10', '15', '19', '50', '90', '99', '100', '101', '909']
    fracs = ['', '.0', '.1', '.5', '.9', '.00', '.01', '.05', '.10', '.50', '.09', '.90', '.001', '.100', '.909']
    exps = ['', 'e0', 'E1', 'e-1', 'e+2', 'e-2', 'E-3', 'e3']
    for sg in ['', '-']:
        for i in ints:
            for f in fracs:
                for e in exps:
                    out.append(sg + i + f + e)
    return out


import sys as _sys
if hasattr(_sys, 'set_int_max_str_digits'):
    _sys.set_int_max_str_digits(0)     # exact oracle: numbers with thousands of digits


class Prop:
    id = 'C13'
    level = 'proof'
    theorems_file = 'Properties/C13.v'
    exhaustive_note = ''

    def cases(self, tier, rng):
        cs = []
        alpha = '-+0159.eEx'
        maxlen = 5 if tier == 'quick' else 6
        for n in range(0, maxlen + 1):
            for t in itertools.product(alpha, repeat=n):
                s = ''.join(t)
                cs.append(Case('num N ' + hx(s), 'exh-len%d' % n))
        self.exhaustive_note = 'all strings of length <= %d over the alphabet %r' % (maxlen, alpha)
        pool = small_numbers()
        accepted = [s for s in pool if GRAMMAR.match(s)]
        npairs = 250 if tier == 'quick' else 700
        sel = rng.sample(accepted, min(npairs, len(accepted)))
        # make sure the classic equal-value families are in
        sel += ['0', '-0', '0.0', '-0.00', '1', '1.0', '10e-1', '0.1e1', '100E-2', '1.50', '1.5', '15e-1', '-1.5', '-15E-1']
        for a in sel:
            cs.append(Case('num N ' + hx(a), 'pool'))
        for a in sel:
            for b in sel:
                cs.append(Case('num P %s %s' % (hx(a), hx(b)), 'pair-small'))
        nrand = 2000 if tier == 'quick' else 50000
        for _ in range(nrand):
            a = self.rand_number(rng)
            # b: same value written differently, a neighbour in the last digit, or independent
            k = rng.random()
            if k < 0.35:
                b = self.respell(a, rng)
            elif k < 0.7:
                b = self.neighbour(a, rng)
            else:
                b = self.rand_number(rng)
            cs.append(Case('num N ' + hx(a), 'random-long'))
            cs.append(Case('num P %s %s' % (hx(a), hx(b)), 'pair-random'))
        # 19/20/21-digit exponents and leading-zero exponents
        for e in ['9223372036854775807', '9223372036854775808', '18446744073709551615', '18446744073709551616',
                  '18446744073709551617', '99999999999999999999', '184467440737095516160', '0000000000000000000000002',
                  '-0000000000000000000000002', '+00000000000000000000001']:
            cs.append(Case('num N ' + hx('1e' + e), 'exp-width'))
            cs.append(Case('num N ' + hx('1.5E-' + e.lstrip('+-')), 'exp-width'))
        return cs

    def rand_number(self, rng):
        nd = rng.choice([1, 2, 3, 5, 20, 60, 200, 400])
        ip = str(rng.randint(0, 10 ** rng.randint(1, nd)))
        s = ('-' if rng.random() < 0.4 else '') + ip
        if rng.random() < 0.7:
            fl = rng.randint(1, nd)
            s += '.' + ''.join(rng.choice('0123456789') for _ in range(fl)) + ('0' * rng.randint(0, 3) if rng.random() < 0.3 else '')
        if rng.random() < 0.6:
            e = rng.choice([0, 1, -1, 2, -2, rng.randint(-30, 30), rng.randint(-2000, 2000)])
            s += rng.choice('eE') + rng.choice(['', '+'] if e >= 0 else ['']) + str(e)
        if not GRAMMAR.match(s):
            return '1'
        return s

    def respell(self, a, rng):
        """another spelling of the same value"""
        m = re.match(r'(-?)([0-9]+)(?:\.([0-9]+))?(?:[eE]([+-]?[0-9]+))?\Z', a)
        sign, ip, fp, ep = m.group(1), m.group(2), m.group(3) or '', int(m.group(4) or '0')
        digits = ip + fp
        shift = rng.randint(-5, 5)
        pos = len(ip) + shift
        ep2 = ep - shift
        if pos <= 0:
            digits = '0' * (1 - pos) + digits; pos = 1
        if pos > len(digits):
            digits = digits + '0' * (pos - len(digits))
        ip2, fp2 = digits[:pos].lstrip('0') or '0', digits[pos:]
        if rng.random() < 0.5:
            fp2 += '0' * rng.randint(0, 4)
        s = sign + ip2 + ('.' + fp2 if fp2 else '') + ('e%d' % ep2 if ep2 or rng.random() < 0.3 else '')
        if ip2 == '0' and not fp2 and 'e' in s:
            s = sign + '0.0' + s[s.index('e'):]
        return s if GRAMMAR.match(s) else a

    def neighbour(self, a, rng):
        i = [k for k, c in enumerate(a) if c.isdigit() and (('e' not in a.lower()) or k < a.lower().index('e'))]
        k = rng.choice(i)
        d = (int(a[k]) + rng.choice([1, 9])) % 10
        b = a[:k] + str(d) + a[k + 1:]
        return b if GRAMMAR.match(b) else a

    def project(self, out):
        return out

    def nontrivial(self, c):
        t = c.line.split(' ')
        if t[1] == 'P':
            return True
        return bool(GRAMMAR.match(unhx(t[2])))

    def oracle(self, case, out):
        t = case.line.split(' ')
        if t[1] == 'N':
            s = unhx(t[2])
            g = bool(GRAMMAR.match(s))
            if g and abs(exp_of(s)) > EXP_CAP:
                # outside C13's quantifier as far as refusal goes (C02's business, finding F13e); but an answer must be right
                if out.startswith('ok '):
                    st = unhx(out.split(' ')[1])
                    if not re.match(r'-?(0|[1-9][0-9]*)(\.[0-9]+)?\Z', st) or norm(st) != norm(s):
                        return 'String() denotes another value: %r -> %r' % (s, st[:80])
                return None
        if out.startswith('panic') or out.startswith('TOOLCRASH'):
            return 'NewNumber does not return: ' + out
        if t[1] == 'N':
            if not g:
                return None if out.startswith('err') else 'text outside the JSON number grammar accepted: %r -> %s' % (s, out)
            if not out.startswith('ok '):
                return 'grammatical number rejected: %r -> %s' % (s, out)
            _, h, fl = out.split(' ')
            st = unhx(h)
            if not re.match(r'-?(0|[1-9][0-9]*)(\.[0-9]+)?\Z', st):
                return 'String() is not a JSON number: %r' % st
            v = value(s)
            if value(st) != v:
                return 'String() denotes another value: %r -> %r' % (s, st)
            if int(fl) != frac_digits(v):
                return 'LengthOfFractionalPart=%s but the value %s has %d significant fraction digits' % (fl, st, frac_digits(v))
            return None
        a, b = unhx(t[2]), unhx(t[3])
        if not (GRAMMAR.match(a) and GRAMMAR.match(b)):
            return None
        if out == 'notboth':
            return None  # reported by the N case of the rejected number
        va, vb = value(a), value(b)
        c = (va > vb) - (va < vb)
        exp = 'cmp %d %d %d %d %d %d' % (c, c == 0, c == 1, c >= 0, c == -1, c <= 0)
        if out != exp:
            return 'comparison of %r and %r: got [%s], exact arithmetic says [%s]' % (a, b, out, exp)
        return None

    def shrink_candidates(self, case):
        t = case.line.split(' ')
        strs = [unhx(x) for x in t[2:]]
        for i, s in enumerate(strs):
            for k in range(len(s)):
                s2 = s[:k] + s[k + 1:]
                new = strs[:i] + [s2] + strs[i + 1:]
                yield Case(' '.join(t[:2] + [hx(x) for x in new]), 'shrunk')

    def describe(self):
        return dict(
            rule='exhaustive strings over the number alphabet up to a length bound; all ordered pairs of a small-scope pool '
                 '(sign x integer x fraction x exponent variants); random long numbers (up to 400 digits, exponent shift up to '
                 '+-2000) paired with a respelling of the same value, a last-digit neighbour or an independent number; exponent '
                 'width family. non-trivial = pair case, or a text of the JSON number grammar',
            trusted=['Coq 8.16.1 kernel', 'hand-written model coq/Model/Number.v tied to json/scanner.go, json/number.go, '
                     'bytes.ParseUint/ParseInt by correspondence (extracted OCaml vs NewNumber/Cmp/String/LengthOfFractionalPart)',
                     'extraction: ExtrOcamlBasic only; ocaml/modelrun.ml', 'harness cmd/implrun/num.go',
                     'oracle: python re + fractions.Fraction (support only)'],
            assumptions=['exponent magnitude <= 2^40 and text shorter than 2^40 bytes in the theorems (no int64 wrap, no makeslice limit); '
                         'harness keeps |exponent| <= 100000'],
            explanation='Theorems over the scanner/normaliser/comparator model; tie by correspondence on exhaustive and random texts and pairs')
