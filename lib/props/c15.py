"""C15 - Len() finds the end of the schema inside a larger text."""
import re
import vf
from vf import Case
import samples
from props.c10 import hx, spec
from props.c03 import Prop as C03, render

ANNOTATED = [
    '1 // {min: 0}', '{\n  "a": 1 // {min: 0}\n}', '{ // {additionalProperties: true}\n}', '[ // {minItems: 0}\n  1\n]', '1 /* {min: 0} */', '1 // note',
    '{\n  "a": 1, // {min: 0} - note\n  "b": 2\n}', '1 # comment', '{} # c', '[\n1 # c\n]', '### c ###\n1', '1\n### c ###', '@t', '@a | @b', '@t // {optional: false}',
    '{\n  @k: 1\n}', '{\n  "a": @t | @u // note\n}', '"s" /* {minLength: 1}\n - note */', '[\n  1, # one\n  2 # two\n] # end', '{\n  "a": { // {allOf: "@b"}\n  }\n}',
    '1 //', '1 // {min: 0} -', '{\n  "a": 1\n}\n# tail comment', '[] // {minItems: 0} - Description ', '42 /*\n  {nullable: true}\n*/',
    # escapes inside the strings of an annotation (keys and values of the rule object, inline and block)
    '"A" // {enum: ["\\u0041", "B"]}', '"A" /* {enum: ["\\u0041", "B"]} */', '1 // {"\\u006din": 0}', '"x" // {regex: "\\u0078"}', '"s" // {enum: ["s", "a\\\\b", "q\\"q"]}',
    '{\n  "a": "A", // {enum: ["\\u0041"]} - note\n  "b": 2\n}', '"A" /* {enum: ["\\u0041"]}\n - note */', '"\\u0041" // {minLength: 1}', '{\n  "\\u0061": 1 // {min: 0}\n}',
    '"A" // {or: [{type: "string", enum: ["\\u0041"]}, "integer"]}',
    # a user comment after the note of an annotation
    '42 // the answer # remark', '{"id": 1} // an object # remark', '@a | @b // pets # remark', '1 // {min: 0} - note # c', '"s" /* note */ # c',
    '[\n  1 // one # c1\n] // end # c2', '1 // n #',
    # blanks between the value and the end of its line
    '{} #', '1 #', '{\n  "a": 1 #\n}', '1 # ',
    '@t ', '@t\t', '@a | @b ', '@a | @b\t ', '1 ', '"a"\t', '{} ', '[1] ', 'true  ', '1 // n ', '@t // n ', '{\n  "a": @t \n}', '[\n  @a | @b \n] ',
]
# first bytes of a trailer: everything but what continues the schema text on a new line (annotation / comment start)
def trailers():
    out = []
    for b in range(256):
        if b in (0x2f, 0x23):
            continue
        out.append(bytes([b]) + b'rest of the line\nmore')
    out += [b'x', b'GET /cats', b'  200 {"a": 1}', b'\n\nx', b'\tx', b' x', b'1', b'{', b'}', b']', b'"', b'@t', b',', b':', b'|', b'URL /x\n  200 1 // {min: 0}', b'', b' ', b'\n']
    return out


class Prop:
    id = 'C15'
    level = 'proof'
    theorems_file = 'Properties/C15.v'
    exhaustive_note = ''

    def cases(self, tier, rng):
        cs = []
        self.kind = {}
        self.base = {}
        gen = C03()
        schemas = [(s, 'sample') for s in samples.SCHEMAS] + [(s, 'annotated') for s in ANNOTATED]
        plain = []
        n = 40 if tier == 'quick' else 600
        for _ in range(n):
            t = gen.gen(rng)
            plain.append(rng.choice(['', ' ', '\n']) + render(t, rng))
        plain += ['1', '-0.5', '"a"', 'true', 'null', '[]', '{}', '[1, 2]', '{"a": 1}', ' [ ] ', '12', '1.5', '0']
        T = trailers()
        if tier == 'quick':
            keep = T[:256:5] + T[254:]
        else:
            keep = T
        def add(line, klass, kind, base=None):
            self.kind[line] = kind
            if base is not None:
                self.base[line] = base
            cs.append(Case(line, klass))
        for s in plain:
            sb = s.encode()
            add('jlen ' + hx(sb), 'plain', 'base')
            for t in keep:
                for nl in (b'\n', b'\r\n'):
                    add('jlen ' + hx(sb + nl + t), 'plain+trailer', 'trailer', 'jlen ' + hx(sb))
            # directly after the value: anything that cannot extend a number is outside the schema as well
            for t in [b' x', b',', b':', b']', b'}', b' 1', b'\tx']:
                add('jlen ' + hx(sb + t), 'plain+same-line', 'trailer', 'jlen ' + hx(sb))
        for s, k in schemas:
            sb = s.encode()
            add('slen ' + hx(sb), k, 'base')
            for t in (keep if tier != 'quick' else keep[::3]):
                for nl in (b'\n', b'\r\n'):
                    add('slen ' + hx(sb + nl + t), k + '+trailer', 'trailer', 'slen ' + hx(sb))
        self.exhaustive_note = 'every first byte of the trailer (254 values; %d at the quick tier) after LF and CRLF, for %d plain JSON documents and %d annotated schemas' % (len(keep), len(plain), len(schemas))
        return cs

    def run_impl(self, lines):
        """for every text: Len, and Check/AST/Len of the prefix up to Len"""
        texts = [l.split(' ')[1] for l in lines]
        first = vf.run_impl(['proj len ' + t for t in texts] + ['proj check ' + t for t in texts] + ['proj ast ' + t for t in texts])
        n = len(texts)
        lens, chks, asts = first[:n], first[n:2 * n], first[2 * n:]
        pre = []
        for t, l in zip(texts, lens):
            if l.isdigit():
                b = bytes.fromhex(t) if t != '-' else b''
                pre.append(hx(b[:int(l)]))
            else:
                pre.append(None)
        q = [p for p in pre if p is not None]
        second = vf.run_impl(['proj len ' + p for p in q] + ['proj check ' + p for p in q] + ['proj ast ' + p for p in q])
        m = len(q)
        it = iter(range(m))
        out = []
        for i in range(n):
            if pre[i] is None:
                out.append('len=%s' % lens[i].split('~')[0])
                continue
            j = next(it)
            b = bytes.fromhex(texts[i]) if texts[i] != '-' else b''
            out.append('len=%s total=%d check=%s plen=%s pcheck=%s past=%s' % (
                lens[i], len(b), chks[i].split('@')[0], second[j], second[m + j].split('@')[0],
                'same' if second[2 * m + j] == asts[i] or not chks[i].startswith('ok') else 'differs'))
        return out

    def model_lines(self, lines, impl):
        return [l if l.startswith('jlen ') else None for l in lines]

    def project(self, out):
        m = re.match(r'len=(\d+) ', out)
        return 'len=' + m.group(1) if m else 'rej'

    def project_model(self, out):
        return out if out.startswith('len=') else 'rej'

    def nontrivial(self, c):
        return True

    def oracle(self, case, out):
        if 'panic' in out or 'TOOLCRASH' in out:
            return 'crash: ' + out[:160]
        m = re.match(r'len=(\d+) total=(\d+) check=(\S+) plen=(\S+) pcheck=(\S+) past=(\S+)', out)
        kind = self.kind.get(case.line)
        if not m:
            if kind == 'trailer' and self.results.get(self.base.get(case.line), '').startswith('len='):
                b = self.results[self.base[case.line]]
                if re.match(r'len=\d+ ', b):
                    return 'Len() fails once text follows the schema: ' + out[:80]
            return None
        L, total, chk, plen, pchk, past = int(m.group(1)), int(m.group(2)), m.group(3), m.group(4), m.group(5), m.group(6)
        if L > total:
            return 'Len() = %d exceeds the text (%d bytes)' % (L, total)
        if kind == 'base':
            if pchk != chk:
                return 'the prefix up to Len() is judged differently: %s vs %s' % (pchk, chk)
            if past != 'same':
                return 'the prefix up to Len() has another AST'
        if plen != str(L):
            return 'Len() is not idempotent: Len(prefix) = %s, Len = %d' % (plen, L)
        if kind == 'trailer':
            b = self.results.get(self.base[case.line], '')
            mb = re.match(r'len=(\d+) ', b)
            if mb and int(mb.group(1)) != L:
                return 'what follows the schema moves the boundary: Len = %d, with the trailer %d' % (int(mb.group(1)), L)
        return None

    results = {}

    def extra_checks(self, tier, rng, cases, impl):
        # the oracle needs the result of the base text of each trailer case: second pass
        self.results = {c.line: o for c, o in zip(cases, impl)}
        bad = []
        for c, o in zip(cases, impl):
            if self.kind.get(c.line) == 'trailer':
                why = self.oracle(c, o)
                if why and ('moves the boundary' in why or 'once text follows' in why):
                    bad.append((Case(c.line, 'trailer'), why))
        return bad

    def describe(self):
        return dict(
            rule='texts S and S + newline + T: S = plain JSON documents (random trees with random whitespace) and annotated schemas (rules, notes, inline and '
                 'block annotations, # and ### comments, shortcuts); T = every first byte except "/" and "#" followed by arbitrary text, plus JSight-API-like lines; '
                 'also trailers directly after the value on the same line. Checked: Len <= len, prefix judged like S with the same AST, Len idempotent, '
                 'Len(S + newline + T) = Len(S)',
            trusted=['Coq 8.16.1 kernel', 'model coq/Model/JsonValue.v (jlen) tied by correspondence on plain JSON texts with trailers',
                     'for annotated schemas the four clauses are checked on the implementation itself (no model)', 'extraction, driver, harness'],
            assumptions=['a trailer whose first non-blank byte is "/" or "#" continues the schema (annotation or comment on the next line) and is outside the statement'],
            explanation='Len theorems on the plain-JSON model; correspondence; metamorphic oracle on the implementation for annotated schemas')
