"""C18 - regex schemas."""
import itertools, re
from vf import Case, run_impl


def hx(b):
    return b.hex() or '-'


def unhx(h):
    return b'' if h == '-' else bytes.fromhex(h)


def spec_split(b):
    """independent reading of the statement: starts with '/', first later unescaped '/' (even number of backslashes before it)"""
    if not b:
        return 'empty'
    if b[0:1] != b'/':
        return 'nostart'
    i = 1
    while i < len(b):
        if b[i:i + 1] == b'/':
            k = i - 1
            n = 0
            while k >= 1 and b[k:k + 1] == b'\\':
                n += 1; k -= 1
            if n % 2 == 0:
                return b[1:i]
        i += 1
    return 'noend'


def misplaced_anchor(case, reason):
    """F18d: the pattern has an unescaped ^ after another atom or an unescaped $ before another atom
    (outside a character class): no string can match it, and reggen ignores anchors"""
    sp = spec_split(unhx(case.line.split(' ')[1]))
    if not isinstance(sp, bytes):
        return False
    p = sp.decode('utf-8', 'replace')
    i, in_class, n = 0, False, len(p)
    atoms = []  # (kind, text) with kind in anchor^, anchor$, other
    while i < n:
        c = p[i]
        if c == '\\' and i + 1 < n:
            atoms.append('o'); i += 2; continue
        if in_class:
            if c == ']':
                in_class = False
            i += 1; continue
        if c == '[':
            in_class = True; atoms.append('o'); i += 1
            if i < n and p[i] == '^':
                i += 1
            if i < n and p[i] == ']':
                i += 1
            continue
        atoms.append('^' if c == '^' else '$' if c == '$' else 'o'); i += 1
    for k, a in enumerate(atoms):
        if a == '^' and any(x == 'o' or x == '$' for x in atoms[:k]):
            return True
        if a == '$' and any(x == 'o' or x == '^' for x in atoms[k + 1:]):
            return True
    return False


EMPTY_CLASSES = ['[^\\s\\S]', '[^\\S\\s]', '[^\\d\\D]', '[^\\D\\d]', '[^\\w\\W]', '[^\\W\\w]', '[^\\x00-\\x{10FFFF}]']


def empty_class(case, reason):
    """F18e: the pattern holds a character class that matches nothing ([^\\s\\S] ...): it compiles, no string matches it"""
    sp = spec_split(unhx(case.line.split(' ')[1]))
    return isinstance(sp, bytes) and any(c.encode() in sp for c in EMPTY_CLASSES)


class Prop:
    id = 'C18'
    known_matchers = {'misplaced_anchor': misplaced_anchor, 'empty_class': empty_class}
    level = 'proof'
    theorems_file = 'Properties/C18.v'
    exhaustive_note = ''

    def cases(self, tier, rng):
        cs = []
        alpha = ['/', '\\', 'a', '[', ']', '(', ')', '*', '+', '?', '|', '.', '^', '$', '{', '}', ' ']
        maxlen = 4 if tier == 'quick' else 5
        for n in range(0, maxlen + 1):
            for t in itertools.product(alpha, repeat=n):
                cs.append(Case('regex ' + hx(''.join(t).encode()), 'exh-len%d' % n))
        # delimiter-focused: everything over / \ a of length <= 8
        m = 8 if tier == 'quick' else 10
        for n in range(maxlen + 1, m + 1):
            for t in itertools.product('/\\a', repeat=n):
                cs.append(Case('regex ' + hx(''.join(t).encode()), 'exh-delims-len%d' % n))
        self.exhaustive_note = 'all texts of length <= %d over %r; all texts of length <= %d over "/\\\\a"' % (maxlen, ''.join(alpha), m)
        atoms = ['a', 'b', '[a-z]', '[0-9]+', '(ab|c)', 'x?', 'y*', '\\d{2}', '\\/', '\\\\', '.', '[^/]', '\\.', ' ', 'é', '\x01',
                 '\\x41', '<', '&', '"', "'", '\\"', '\t', '\U0001F600', '[\\]\\/]', '(?i)z', '^', '$', '\\w+@\\w+',
                 # percent signs: the pattern travels through text templates on its way into a referring schema
                 '%', '%s', '%d', '%%', '%[0-9A-F]{2}', '\\d{1,3}%']
        # character classes that match nothing: the expression compiles, the example generator has nothing to choose from
        for ec in EMPTY_CLASSES:
            for pre, post in [('', ''), ('a', ''), ('', 'x'), ('(', ')?'), ('a|', ''), ('', '*'), ('[a-z]+', '{2}')]:
                cs.append(Case('regex ' + hx(('/' + pre + ec + post + '/').encode()), 'class-that-matches-nothing'))
        nrand = 2000 if tier == 'quick' else 40000
        for _ in range(nrand):
            p = ''.join(rng.choice(atoms) for _ in range(rng.randint(0, 6)))
            tail = rng.choice(['', '', ' ', ' // note', '/x', '\n{}'])
            cs.append(Case('regex ' + hx(('/' + p + '/' + tail).encode('utf-8')), 'generated'))
            if rng.random() < 0.3:
                cs.append(Case('regex ' + hx(('/' + p).encode('utf-8')), 'generated-unterminated'))
        return cs

    def post_model(self, lines, model):
        """the model's parameter re_ok is regexp.Compile: ask it for every candidate pattern"""
        idx, q = [], []
        for i, m in enumerate(model):
            if m and m.startswith('cand '):
                idx.append(i); q.append('regex R ' + m.split(' ')[1])
        ans = run_impl(q) if q else []
        out = list(model)
        for i, a in zip(idx, ans):
            f = model[i].split(' ')
            out[i] = ('ok ' + ' '.join(f[1:])) if a == '1' else 'err:1502@0'
        return out

    def project(self, out):
        return ' '.join(x for x in out.split(' ') if not x.startswith('ex=') and not x.startswith('ref='))

    def nontrivial(self, c):
        return spec_split(unhx(c.line.split(' ')[1])) not in ('empty', 'nostart', 'noend')

    def oracle(self, case, out):
        b = unhx(case.line.split(' ')[1])
        if 'panic' in out or 'TOOLCRASH' in out or 'rawerr' in out:
            return 'regex schema does not return a diagnostic: ' + out
        sp = spec_split(b)
        if out.startswith('err:'):
            code, idx = re.match(r'err:(-?\d+)@(-?\d+)', out).groups()
            code, idx = int(code), int(idx)
            if sp == 'empty':
                return None if (code == 202 and idx == -1) else 'empty text: ' + out
            if not (0 <= idx < len(b)):
                return 'error position %d outside the text of %d bytes' % (idx, len(b))
            want = {'nostart': 1500, 'noend': 1501}.get(sp, 1502)
            if code != want:
                return 'rejected with code %d, expected %d for %r' % (code, want, b)
            return None
        if not isinstance(sp, bytes):
            return 'accepted although the text has no "/" pattern "/" form: %r' % b
        f = out.split(' ')
        p, n, ast, oas = unhx(f[1]), int(f[2]), unhx(f[3]), f[4]
        if p != sp:
            return 'pattern %r, expected %r' % (p, sp)
        if n != len(sp) + 2:
            return 'Len %d, expected %d' % (n, len(sp) + 2)
        if ast != b'/' + sp + b'/':
            return 'AST value %r' % ast
        if oas in ('?', 'panic') or unhx(oas) != sp:
            return 'OpenAPI pattern %r, expected %r' % (oas, sp)
        ex = [x for x in f if x.startswith('ex=')][0]
        ref = [x for x in f if x.startswith('ref=')][0]
        if ex != 'ex=1':
            return 'Example() is not matched by the pattern (%s)' % ex
        if ref != 'ref=ok':
            return 'a schema referring to the regex type does not accept its example (%s)' % ref
        return None

    def shrink_candidates(self, case):
        b = unhx(case.line.split(' ')[1])
        for k in range(len(b)):
            yield Case('regex ' + hx(b[:k] + b[k + 1:]), 'shrunk')

    def describe(self):
        return dict(
            rule='all short texts over a regex-relevant alphabet, all texts over "/ \\ a" to a larger length (escape parity), generated '
                 'well-formed patterns (classes, groups, quantifiers, escapes, control and non-ASCII characters) with trailers and '
                 'unterminated variants. non-trivial = text with "/" pattern "/" form',
            trusted=['Coq 8.16.1 kernel', 'model coq/Model/RegexScan.v with regexp.Compile as a parameter (instantiated at run time by asking '
                     'the real regexp.Compile for the candidate pattern)', 'reggen / regexp.Match / the referring-schema check are judged by the '
                     'oracle only (not modelled)', 'extraction, driver, harness cmd/implrun/regex.go'],
            assumptions=['empty text: rejected with code 202 and no position (there is no byte to point at)'],
            explanation='delimiter scan, positions, Len, AST value and OpenAPI pattern are theorems; example/pattern agreement is oracle-backed')
