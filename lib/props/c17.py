"""C17 - enum rule files: accepted texts, listed values, equivalence with the inline enum."""
import itertools, json, re, os, sys
from vf import Case
sys.path.insert(0, os.path.join(os.path.dirname(os.path.dirname(os.path.abspath(__file__))), 'oracles'))
from enum_ref import parse as ref_parse, Rej


def hx(b):
    return b.hex() or '-'


def kind(lit):
    if lit[:1] == b'"':
        return 'string'
    if lit in (b'true', b'false'):
        return 'boolean'
    if lit == b'null':
        return 'null'
    return 'float' if b'.' in lit else 'integer'


def keyof(lit):
    if lit[:1] == b'"':
        try:
            return ('s', re.sub('[\ud800-\udfff]', '\ufffd', json.loads(lit.decode('utf-8', 'replace'))))
        except Exception:
            return ('s', lit)
    return ('l', lit)


SCALARS = [b'1', b'1.0', b'-0', b'0', b'-1.50', b'12', b'true', b'false', b'null', b'"a"', b'"\\u0061"', b'"a.b"', b'"1"', b'"1.0"',
           b'"true"', b'""', b'" "', b'"\\n"', b'"\\u000a"', b'"\\ud83d\\ude00"', b'"\xf0\x9f\x98\x80"', b'"\\ud83d"', b'"\\ufffd"',
           b'"\xc3\xa9"', b'"\\u00e9"', b'"\\u00E9"', b'"//"', b'"/*"', b'"]"', b'","', b'"\\""', b'"\\/"', b'"/"', b'"e"', b'"1e5"', b'"\\\\"', b'"C:\\\\"', b'"a.b\\\\"', b'"\\\\\\""', b'"\\u005c"']
BAD_SCALARS = [b'1e5', b'1E5', b'1.', b'.5', b'01', b'-', b'+1', b'tru', b'True', b'nul', b'"a', b'a"', b"'a'", b'"\\x"', b'"\\u12"', b'"\t"',
               b'[1]', b'{}', b'@e', b'1 2']
SEPS = [b'', b' ', b'\n', b'\r\n', b'\t', b' // c\n', b'//\n', b' /* c */ ', b'/**/', b'/* a\n b */', b' // [1, 2]\n', b'/* ] */']


class Prop:
    id = 'C17'
    level = 'proof'
    theorems_file = 'Properties/C17.v'
    exhaustive_note = ''

    def cases(self, tier, rng):
        cs = []
        alpha = [b'[', b']', b',', b'1', b'"a"', b'//', b'/*', b'*/', b'\n', b' ', b'c', b'-0.5', b'"\\u0061"', b'true', b'/', b'*']
        L = 4 if tier == 'quick' else 5
        n = 0
        for k in range(0, L + 1):
            for t in itertools.product(alpha, repeat=k):
                cs.append(Case('enum ' + hx(b''.join(t)), 'exh-tokens'))
                n += 1
        self.exhaustive_note = 'every concatenation of up to %d of %d tokens ([ ] , scalars, // /* */ newline blank text, lone / and *): %d texts' % (L, len(alpha), n)
        # structured lists with separators; every truncation of some
        nrand = 6000 if tier == 'quick' else 100000
        for i in range(nrand):
            k = rng.randint(0, 4)
            items = [rng.choice(SCALARS) for _ in range(k)]
            if rng.random() < 0.12 and k:
                items[rng.randrange(k)] = rng.choice(BAD_SCALARS)
            sep = lambda: rng.choice(SEPS) if rng.random() < 0.5 else b''
            t = sep() if rng.random() < 0.1 else rng.choice([b'', b' ', b'\n'])
            t += b'[' + sep()
            for j, it in enumerate(items):
                t += it + sep()
                if j + 1 < len(items):
                    t += b',' + sep()
            if rng.random() < 0.05:
                t += b',' + sep()
            t += b']' + sep() + (rng.choice([b'', b'x', b'[', b'/', b'/*', b'//']) if rng.random() < 0.1 else b'')
            cs.append(Case('enum ' + hx(t), 'list-%d' % k))
            if i % 20 == 0:
                for cut in range(len(t)):
                    cs.append(Case('enum ' + hx(t[:cut]), 'truncation'))
        # duplicates by denotation: every pair of the pool
        for a, b in itertools.product(SCALARS, repeat=2):
            cs.append(Case('enum ' + hx(b'[' + a + b', ' + b + b']'), 'pair'))
        # the named rule against the inline list (one-line rule texts), every example of the pool
        rules = [b'[' + b', '.join(c) + b']' for r in range(0, 3) for c in itertools.combinations(SCALARS[:18], r)]
        if tier == 'quick':
            rules = rng.sample(rules, 60)
        for r in rules:
            for ex in rng.sample(SCALARS, 8 if tier == 'quick' else 20):
                cs.append(Case('enumeq %s %s' % (hx(r), hx(ex)), 'named-vs-inline'))
        # rule texts that are not lists of distinct scalars: both forms must refuse (the codes differ by construction)
        bad_rules = [b'[1, 1]', b'["a", "\\u0061"]', b'[1.0, 1.0]', b'["1", 1, "1"]', b'[1e3]', b'[1, 2E0]', b'[[1]]', b'[{}]', b'[1,]', b'[,1]', b'[1 2]',
                     b'[@e]', b'[1, tru]', b'["a]', b'[1', b'1', b'{}', b'[01]', b'[-]', b'[1.]', b'[null, null]', b'[true, true]', b'["a", "b", "a"]']
        for r in bad_rules + [b'[' + a + b', ' + a + b']' for a in SCALARS[:18]]:
            for ex in [b'1', b'"a"', b'null']:
                cs.append(Case('enumeq %s %s' % (hx(r), hx(ex)), 'named-vs-inline-refused'))
        # rule texts of several lines with // comments: the inline form stands in a block annotation
        for i in range(150 if tier == 'quick' else 2000):
            k = rng.randint(1, 4)
            items = rng.sample(SCALARS[:18], k)
            t = b'[' + rng.choice([b'', b'\n', b' // head\n', b'\n  // only a comment\n'])
            for j, it in enumerate(items):
                t += rng.choice([b'', b'  ', b'\n  ']) + it + (b',' if j + 1 < k else b'') + rng.choice([b'', b' ', b' // note %d\n' % j, b'\n'])
            t += rng.choice([b'', b'\n']) + b']'
            for ex in [items[0], rng.choice(SCALARS)]:
                cs.append(Case('enumeq %s %s block' % (hx(t), hx(ex)), 'named-vs-inline-block'))
        return cs

    def model_lines(self, lines, impl):
        return [l if l.startswith('enum ') else None for l in lines]

    def project(self, out):
        m = re.match(r'check=(\S+) len=(\S+) values=(\S+)', out)
        if not m:
            return out
        if m.group(1) != 'ok':
            return 'rej'
        vs = m.group(3)
        if vs == 'none':
            return 'ok none'
        keep = []
        for v in vs.split(','):
            k, val, com = v.split(':')
            if k == 'comment':
                continue
            keep.append(k + ':' + val)
        return 'ok ' + (','.join(keep) or 'none')

    def project_model(self, out):
        m = re.match(r'check=(\S+) values=(\S+)', out)
        if not m:
            return out
        if m.group(1) != 'ok':
            return 'rej' if m.group(1).startswith('rej') else out
        return 'ok ' + m.group(2)

    def nontrivial(self, c):
        return True

    def oracle(self, case, out):
        if 'panic' in out or 'TOOLCRASH' in out:
            return 'a Go panic escapes: ' + out[:160]
        if case.line.startswith('enumeq '):
            m = re.match(r'named=(\S+) inline=(\S+)', out)
            if not m:
                return 'unreadable result ' + out[:120]
            if case.klass == 'named-vs-inline-refused':
                va, vb = m.group(1).startswith('ok'), m.group(2).startswith('ok')
                if va or vb:
                    return 'a rule text that is not a list of distinct scalars is accepted: named %s, inline %s' % (m.group(1), m.group(2))
                return None
            if m.group(1) != m.group(2):
                return 'the schema with `enum: @name` and the schema with the list inline differ: %s vs %s' % (m.group(1), m.group(2))
            # whether the example is a member of the list is the enum rule's meaning: C01's subject, not C17's
            return None
        if ' ast=DIFF' in out:
            return 'GetAST() of the rule does not list the entries of Values(): ' + out.split(' ast=')[1][:60]
        text = bytes.fromhex(case.line.split(' ')[1]) if case.line.split(' ')[1] != '-' else b''
        m = re.match(r'check=(\S+) len=(\S+) values=(\S+)', out)
        if not m:
            return 'unreadable result ' + out[:120]
        try:
            vals = [l for l, c in ref_parse(text) if l is not None]
            want = 'ok ' + (','.join('%s:%s' % (kind(l), l.hex()) for l in vals) or 'none')
        except Rej:
            want = 'rej'
        got = self.project(out)
        if want != got:
            return 'enum text %r: expected %s, got %s' % (text[:60], want[:100], got[:100])
        return None

    def describe(self):
        return dict(
            rule='enum rule texts: every concatenation of up to 4 (quick) / 5 (thorough) of 16 tokens; random lists of 0-4 scalars from a pool of 35 '
                 '(numeric-looking strings, strings with dots, escapes equal to other entries, surrogate pairs, raw UTF-8, 1 / 1.0 / -0) and 20 '
                 'malformed scalars, with 12 separator/annotation layouts at every gap, trailing commas and trailing garbage; every truncation of '
                 'one text in 20; every ordered pair of the pool as a two-element list; `enum: @name` against the inline list for rules of 0-2 '
                 'values x examples',
            trusted=['Coq 8.16.1 kernel', 'model coq/Model/EnumParse.v (a lexer and a parser for the language the state machine accepts) tied by '
                     'correspondence on verdict, literals and kinds', 'reference parser lib/oracles/enum_ref.py (regex + json.loads) as the independent oracle',
                     'extraction, driver, harness'],
            assumptions=['comments of Values() are not compared (the statement is about the scalars)', 'the inline form is compared for one-line rule texts and, in a block annotation, for texts of several lines with // comments (a /* */ comment cannot stand inside a block annotation)'],
            explanation='language model with theorems; correspondence on token-exhaustive and structured texts; named-vs-inline differential')
