"""C10 - returned results stay intact and do not depend on what was processed before."""
import os, re, subprocess
import vf
from vf import Case
import samples


def hx(s):
    b = s.encode('utf-8') if isinstance(s, str) else s
    return b.hex() or '-'


def spec(root, types=None, rules=None):
    t = [hx(root)]
    for n, body in (types or {}).items():
        t += ['T', hx(n), 'R' if body.startswith('/') else 'J', hx(body)]
    for n, body in (rules or {}).items():
        t += ['E', hx(n), hx(body)]
    return ' '.join(t)


OPS = {'c': 'check', 'l': 'len', 'e': 'example', 'a': 'ast', 'u': 'used', 'o': 'openapi'}
ENV = dict(os.environ, GOGC='off', GOMAXPROCS='1')


def spec_pool():
    sp = [spec(s) for s in samples.SCHEMAS]
    sp += [spec(r, t) for r, t in samples.TYPED_SCHEMAS]
    sp.append(spec('"x" // {enum: @e}', None, {'@e': '["x", "y"]'}))
    # failing half-way: every truncation of two annotated schemas (fails inside scanner/loader at every position)
    for text in [samples.SCHEMAS[10], samples.SCHEMAS[14], '{\n  "a": @t, // {optional: true}\n  "b": [1, 2]\n}']:
        for k in range(1, len(text), 3):
            sp.append(spec(text[:k]))
    # the loader fails after it registered unnamed types (type choices, `or` with type names) and set a root node
    for text in ['{\n  "secret": 42,\n  "a": @foo | @bar,\n  "b": [1, 2] // {or: ["@foo", "string"]}\n}',
                 '[\n  @foo | @bar,\n  1 // {or: [{type: "@foo"}, {type: "integer", min: 0}]}\n]']:
        for k in range(1, len(text), 2):
            sp.append(spec(text[:k]))
        sp.append(spec(text + ' x'))
    # free text before the first value (handled by the loader before any node of the schema exists)
    sp.append(spec('// note\n{\n  "a": 1\n}'))
    sp.append(spec('/* header */ 42'))
    # nothing to load at all
    sp.append(spec(''))
    sp.append(spec('# nothing here\n'))
    # failing in AddType / missing types / recursion
    sp.append(spec('{"a": @missing}'))
    sp.append(spec('@t', {'@t': '{"x": @t}'}))
    sp.append(spec('@t', {'@t': '{"x": 1,'}))
    sp.append(spec('{\n "a": 1 // {min: 2}\n}'))
    # Example() fails half-way, at each nesting position (error paths of the example builders): a type that is not registered
    bad = '@missing'
    sp.append(spec('[\n  ' + bad + '\n]'))
    sp.append(spec('[\n  1,\n  ' + bad + '\n]'))
    sp.append(spec('{\n  "k": ' + bad + '\n}'))
    sp.append(spec('{\n  "a": [1, 2],\n  "k": [\n    ' + bad + '\n  ]\n}'))
    sp.append(spec('[\n  {\n    "k": ' + bad + '\n  }\n]'))
    sp.append(spec('{\n  "a": @t\n}', {'@t': '[\n  ' + bad + '\n]'}))
    # containers that carry an `or` rule (their example is the container itself)
    sp.append(spec('[\n  { // {or: [{type: "object"}, {type: "integer"}]}\n  }\n]'))
    sp.append(spec('{\n  "k": [ // {or: ["array", "string"]}\n    1\n  ]\n}'))
    # string formats as alternatives (the conversions rename some of them)
    for fmt, ex in [('datetime', '"2021-01-02T07:23:12+03:00"'), ('date', '"2021-01-02"'), ('email', '"x@y.org"'), ('uri', '"http://a.b/c"'),
                    ('uuid', '"550e8400-e29b-41d4-a716-446655440000"')]:
        sp.append(spec('%s // {or: [{type: "%s"}, {type: "integer", min: 0}]}' % (ex, fmt)))
        sp.append(spec('{\n  "k": %s // {or: ["%s", "integer"]}\n}' % (ex, fmt)))
    # victims: nested results where two levels hold buffers at the same time
    sp.append(spec('{"a": {"b": 1}, "c": [1, 2]}'))
    sp.append(spec('[[1, [2, {"x": [3]}]], {"y": {"z": []}}]'))
    return sp


def strip_types(sp):
    """the project without its types (what an object is between the ops r and t)"""
    t = sp.split(' ')
    out, i = [t[0]], 1
    while i < len(t):
        if t[i] == 'T':
            i += 4
        elif t[i] == 'E':
            out += t[i:i + 3]; i += 3
        else:
            out.append(t[i]); i += 1
    return ' '.join(out)


def late_cases(rng, n):
    """histories in the order of a tool that first creates (and loads) every schema of a project, then registers the types on each, then
    asks: r<k> root alone, u<k> UsedUserTypes (loads), t<k> types.  Distractors: schemas with nothing to load that carry the same type
    names, half-way failing ones."""
    cs = []
    asks = 'c1 l1 e1 a1 u1 o1 c0 e0'.split()
    typed = [(r, t) for r, t in samples.TYPED_SCHEMAS if t]
    for root, types in typed:
        m = spec(root, types)
        bare = spec(root)
        for d in [spec('', types), spec('# nothing here\n', types), spec('{"a": @foo | @bar,', types), spec(root, types)]:
            for pre in (['r0', 'u0', 'r1', 'u1', 't0', 't1'], ['r0', 'u0', 'r1', 'u1', 't1', 't0'], ['r0', 'r1', 'u0', 'u1', 't0', 't1']):
                cs.append(Case('hist %s ; %s ;; %s' % (d, m, ' '.join(pre + asks)), 'history-late', meta=([d, m], pre + asks)))
                cs.append(Case('hist %s ; %s ;; %s' % (m, d, ' '.join(pre + asks)), 'history-late', meta=([m, d], pre + asks)))
            # the victim never gets its types: what was registered on the other object must not count
            pre = ['r0', 'u0', 'r1', 'u1', 't0']
            cs.append(Case('hist %s ; %s ;; %s' % (d, m, ' '.join(pre + ['c1', 'e1', 'u1'])), 'history-late', meta=([d, m], pre + ['c1', 'e1', 'u1'])))
    pool = spec_pool()
    for _ in range(n):
        k = rng.randint(2, 4)
        objs = [rng.choice(pool) for _ in range(k)]
        order = list(range(k)); rng.shuffle(order)
        ops = []
        for j in order:
            ops.append('r%d' % j)
            if rng.random() < 0.7:
                ops.append('u%d' % j)
        rng.shuffle(order)
        ops += ['t%d' % j for j in order]
        ops += ['%s%d' % (rng.choice('cleauo'), rng.randrange(k)) for _ in range(rng.randint(2, 8))]
        cs.append(Case('hist ' + ' ; '.join(objs) + ' ;; ' + ' '.join(ops), 'history-late-%dobj' % k, meta=(objs, ops)))
    return cs


SHARED_TYPES = [
    ({'@base': '{\n  "inherited": "x" // {or: [{type: "string", minLength: 1}, {type: "integer"}]}\n}',
      '@heir': '{ // {allOf: "@base"}\n  "own": 1 // {type: "@num"}\n}',
      '@num': '5 // {min: 1}', '@rx': '/[a-z]{1,4}\\d?/', '@ch': '@num | @rx',
      '@list': '[\n  @heir\n]', '@keyed': '{\n  @rx: 1,\n  "e": "x" // {enum: @e}\n}',
      '@ap': '{ // {additionalProperties: "@num"}\n}'}, {'@e': '["x", "y"]'},
     ['@heir', '{\n  "k": @heir,\n  "l": @list\n}', '@ch', '[\n  @keyed,\n  @ap\n]', '{ // {allOf: ["@heir", "@ap"]}\n  "z": @rx\n}',
      '{\n  "a": "b1" // {type: "@rx"}\n}', '1 // {or: ["@num", {type: "@rx"}]}', '{\n  "q": @missing\n}', '{\n  "k": @heir,', '@base']),
    ({'@a': '{\n  "x": @b, // {optional: true}\n  "n": 1\n}', '@b': '{\n  "y": @a, // {optional: true}\n  "m": [1, 2]\n}',
      '@bad': '{\n  "v": 1 // {min: 2}\n}'}, {},
     ['@a', '{\n  "r": @b\n}', '[\n  @a,\n  @b\n]', '@bad', '{\n  "ok": 1,\n  "bad": @bad\n}', '@a | @b']),
]


def shared_cases(rng, n):
    """several schemas of one project that are given the SAME type and rule objects (one object per type, as a tool does that
    keeps its user types in a table): every answer must be the one the schema gives with objects of its own"""
    cs = []
    for _ in range(n):
        types, rules, roots = rng.choice(SHARED_TYPES)
        k = rng.randint(2, 4)
        flag = rng.choice([' share', ' all share'])
        objs = [spec(rng.choice(roots), types, rules) + flag for _ in range(k)]
        ops = ['%s%d' % (rng.choice('cleauo'), rng.randrange(k)) for _ in range(rng.randint(3, 12))]
        cs.append(Case('hist ' + ' ; '.join(objs) + ' ;; ' + ' '.join(ops), 'shared-type-objects', meta=(objs, ops)))
        # the same objects, but every schema is given a subset of them only (what the others were given must not count)
        k = rng.randint(2, 3)
        objs = []
        for _ in range(k):
            names = [n for n in types if rng.random() < 0.7]
            objs.append(spec(rng.choice(roots), {n: types[n] for n in names}, rules) + ' share')
        ops = ['%s%d' % (rng.choice('cleauo'), rng.randrange(k)) for _ in range(rng.randint(3, 10))]
        cs.append(Case('hist ' + ' ; '.join(objs) + ' ;; ' + ' '.join(ops), 'shared-type-objects-subsets', meta=(objs, ops)))
    return cs


def unshared(sp):
    return sp[:-len(' share')] if sp.endswith(' share') else sp


def shared_objects_with_other_types(case, reason):
    """F10a: the schemas of the history are given the same type objects (flag share) but not the same set of them"""
    body = case.line[len('hist '):].split(' ;; ')[0]
    objs = body.split(' ; ')
    if not all(o.endswith(' share') for o in objs) or len(objs) < 2:
        return False
    sets = []
    for o in objs:
        t = o.split(' ')
        sets.append(frozenset(t[i + 1] for i in range(len(t) - 1) if t[i] == 'T'))
    return len(set(sets)) > 1


class Prop:
    id = 'C10'
    known_matchers = {'shared_objects_with_other_types': shared_objects_with_other_types}
    level = 'proof'
    theorems_file = 'Properties/C10.v'
    gen_tables = ['PoolSites']
    uses_model = False
    exhaustive_note = ''

    def __init__(self):
        self.ref = {}

    def cases(self, tier, rng):
        pool = spec_pool()
        n = 5000 if tier == 'quick' else 30000
        cs = []
        for _ in range(n):
            k = rng.randint(1, 4)
            objs = [rng.choice(pool) for _ in range(k)]
            m = rng.randint(2, 14)
            ops = []
            for _ in range(m):
                o = rng.choice('cleauocleauon') if rng.random() < 0.9 else 'n'
                ops.append('%s%d' % (o, rng.randrange(k)))
            cs.append(Case('hist ' + ' ; '.join(objs) + ' ;; ' + ' '.join(ops), 'history-%dobj' % k, meta=(objs, ops)))
        # the smallest aliasing histories, always
        a, b = spec('{"a":1}'), spec('[1,2]')
        for ops in ['e0 e1', 'e0 e0', 'o0 o1 e0', 'e0 a0 e1 o1 c0', 'a0 a1 e0']:
            cs.append(Case('hist %s ; %s ;; %s' % (a, b, ops), 'history-minimal', meta=([a, b], ops.split())))
        # every object of the pool: each answer asked for twice with the other operations in between
        for sp1 in pool:
            cs.append(Case('hist %s ;; a0 o0 e0 a0 o0 e0 u0 c0 a0' % sp1, 'history-repeat', meta=([sp1], 'a0 o0 e0 a0 o0 e0 u0 c0 a0'.split())))
        # every object of the pool loaded, then a schema that begins with free text is loaded, then the first object is asked
        for sp1 in pool:
            for note in [spec('// note\n{\n  "a": 1\n}'), spec('/* header */ 42')]:
                for ops in ['c0 c1 a0 e0 o0 u0'.split(), 'u0 u1 a0 c0 o0 e0'.split()]:       # u: loaded, not yet compiled
                    cs.append(Case('hist %s ; %s ;; %s' % (sp1, note, ' '.join(ops)), 'history-then-note', meta=([sp1, note], ops)))
        # a result far larger than the initial capacity of the pooled buffers (what a pool does with a grown buffer), then small ones
        big = spec('[\n' + ',\n'.join(['  1234567'] * 12000) + '\n]')
        bigo = spec('{\n' + ',\n'.join('  "key%05d": "%s"' % (i, 'v' * 40) for i in range(1500)) + '\n}')
        for b in (big, bigo):
            for small in [spec('{"a":[1,2],"b":{"c":"d"}}'), spec('[1,2]'), spec('@t', {'@t': '{"x": 1}'})]:
                for ops in ['e0 e1 o1 e1', 'o0 o1 e1 o1', 'e0 o0 e1 o1 a1 c1', 'e1 e0 e1 o0 o1']:
                    cs.append(Case('hist %s ; %s ;; %s' % (b, small, ops), 'history-after-a-large-result', meta=([b, small], ops.split())))
        cs += late_cases(rng, 300 if tier == 'quick' else 3000)
        cs += shared_cases(rng, 250 if tier == 'quick' else 2500)
        return cs

    def asked(self, objs, ops):
        """(op token, reference project) per op: between r and t the object is the project without its types"""
        bare = set()
        out = []
        for o in ops:
            k = int(o[1])
            if o[0] == 'r':
                bare.add(k)
            elif o[0] in 'tn':
                bare.discard(k)
            out.append((o, unshared(strip_types(objs[k]) if k in bare else objs[k])))
        return out

    def run_impl(self, lines):
        out = vf.run_impl(lines, env=ENV)
        # reference results: every distinct (operation, project) evaluated as the first thing a fresh process does
        need = set()
        for l in lines:
            objs, ops = self.split(l)
            for o, sp in self.asked(objs, ops):
                if o[0] in OPS:
                    need.add((OPS[o[0]], sp))
        exe = os.path.join(vf.HARNESS, 'bin', 'implrun')
        for (op, sp) in sorted(need):
            if (op, sp) not in self.ref:
                p = subprocess.run([exe], input='projd %s %s\n' % (op, sp), stdout=subprocess.PIPE, text=True, env=ENV)
                self.ref[(op, sp)] = p.stdout.strip()
        return out

    def split(self, line):
        body = line[len('hist '):]
        sp, ops = body.split(' ;; ')
        return sp.split(' ; '), ops.split(' ')

    def project(self, out):
        return out

    def nontrivial(self, c):
        objs, ops = self.split(c.line)
        return len(ops) >= 3

    def oracle(self, case, out):
        if 'panic' in out or 'TOOLCRASH' in out:
            return 'a public operation lets a panic escape during the history: ' + out[:200]
        toks = out.split(' ')
        st = toks[-1]
        if not st.startswith('stable='):
            return 'unreadable result ' + out[:200]
        if st != 'stable=1':
            return 'a value returned to the caller changed afterwards: ' + st
        objs, ops = self.split(case.line)
        for (o, sp), d in zip(self.asked(objs, ops), toks[:-1]):
            if o[0] not in OPS:
                continue
            want = self.ref.get((OPS[o[0]], sp))
            if want is not None and d != want:
                return 'operation %s on object %s gives %s in this history but %s as the first operation of a fresh process' % (
                    OPS[o[0]], o[1], d, want)
        return None

    def shrink_candidates(self, case):
        objs, ops = self.split(case.line)
        for k in range(len(ops)):
            rest = ops[:k] + ops[k + 1:]
            if rest:
                yield Case('hist ' + ' ; '.join(objs) + ' ;; ' + ' '.join(rest), 'shrunk')

    def more_evidence(self):
        return dict(reference_evaluations_in_fresh_processes=len(self.ref))

    def describe(self):
        return dict(
            rule='random histories of Check/Len/Example/GetAST/UsedUserTypes/OpenAPI/re-create over 1-4 schema objects drawn from valid, '
                 'invalid and half-way failing inputs (every 3rd truncation of annotated schemas, failing AddType, missing types, '
                 'recursion), GOGC=off GOMAXPROCS=1 so that pools reuse buffers deterministically; every returned slice/struct is '
                 'compared with its snapshot after every later operation, every result with the same operation run first in a fresh '
                 'process. non-trivial = at least 3 operations',
            trusted=['Coq 8.16.1 kernel incl. vm_compute', 'translator gotables PoolSites (AST: pool Get sites, returned expressions, deferred '
                     'Put, loader fields vs reset())', 'Model/Pools.v: the semantics given to sync.Pool (Get returns any pooled or a fresh buffer)',
                     'harness cmd/implrun/history.go'],
            assumptions=['results that alias the schema source text (literal examples) are not considered pooled state'],
            explanation='theorem: all-Copy sites imply immutability over all histories and pool choices; regenerated site table proves all sites '
                        'copy and the loader reset is total; histories on the real library as the net under the inventory')
