"""C14 - meaning is independent of layout."""
import json, re
import vf
from vf import Case
import samples
from props.c10 import hx
from props.c04 import TYPES, gen_model, Layout, a_node, d_node, norm_allof, tspec


def variants(rng):
    out = [Layout(rng)]
    for nl in ['\n', '\r\n', '\r']:
        for _ in range(2):
            out.append(Layout(rng, nl=nl, block=rng.choice([0, 0.5, 1]), quoted=rng.choice([0, 0.5, 1]), comments=rng.choice([0, 0.5, 0.9]),
                              pad=rng.choice([0, 0.4, 0.9]), comma_after=rng.choice([0, 0.5, 1])))
    return out


def context_free(text, rng):
    """transformations that never change the meaning of a schema text, whatever it is"""
    out = []
    lines = text.split('\n')
    out.append('\r\n'.join(lines))
    if '\r' not in text:
        out.append('\r'.join(lines))
    out.append('\n\n' + text + '\n \n')
    out.append('\n'.join(l + rng.choice(['', ' ', '  ', '\t']) for l in lines))
    out.append('\n'.join('  ' + l for l in lines))
    return out


def line_structure_pairs(case, reason):
    """F14g: the hand-written pairs about line ends after an annotated comma, ### over a line end, a comma at the start of a line"""
    return case.klass.startswith('hand-written-layout-pair-')


class Prop:
    id = 'C14'
    known_matchers = {'line_structure_pairs': line_structure_pairs}
    level = 'proof'
    theorems_file = 'Properties/C14.v'
    exhaustive_note = ''

    def cases(self, tier, rng):
        cs = []
        self.models = {}
        n = 500 if tier == 'quick' else 8000
        for i in range(n):
            m = gen_model(rng)
            for j, lay in enumerate(variants(rng)):
                line = 'stext ' + hx(lay.text(m))
                self.models[line] = m
                cs.append(Case(line, 'model-layout', meta='m%d' % i))
        # the repository's kind of schemas (annotated samples), context-free transformations only
        for i, s in enumerate(samples.SCHEMAS + [r for r, t in samples.TYPED_SCHEMAS if not t]):
            if '\r' in s:
                continue
            cs.append(Case('stext ' + hx(s), 'corpus', meta='c%d' % i))
            for v in context_free(s, rng):
                cs.append(Case('stext ' + hx(v), 'corpus-transformed', meta='c%d' % i))
        return cs

    def run_impl(self, lines):
        texts = [l.split(' ')[1] for l in lines]
        res = vf.run_impl(['proj all %s %s' % (t, tspec()) for t in texts])
        out = []
        for r in res:
            m = re.match(r'check=(\S+) len=(\S+) used=(\S+) example=(\S+) ast=(\S+) openapi=(\S+)', r)
            if not m:
                out.append('rej ' + r.split('~')[0].split('@')[0])
                continue
            chk = m.group(1).split('@')[0]
            if chk != 'ok':
                out.append('rej ' + chk)
                continue
            try:
                ast = norm_allof(a_node(json.loads(bytes.fromhex(m.group(5)).decode('utf-8', 'surrogatepass'))))
            except Exception:
                ast = 'unreadable'
            out.append('ok ast=%s used=%s example=%s openapi=%s' % (ast, m.group(3), m.group(4), m.group(6)))
        return out

    def model_lines(self, lines, impl):
        return [l if l in self.models else None for l in lines]

    def project(self, out):
        m = re.match(r'ok ast=(\S+) ', out)
        return 'ok ast=' + m.group(1) if m else 'rej'

    def project_model(self, out):
        return norm_allof(out)

    def nontrivial(self, c):
        return True

    def oracle(self, case, out):
        if 'panic' in out or 'TOOLCRASH' in out:
            return 'crash: ' + out[:160]
        m = self.models.get(case.line)
        if m is not None:
            want = 'ok ast=' + norm_allof(d_node(m))
            if self.project(out) != want:
                return 'this layout of the model is judged differently from what it says: %s' % out[:120]
        return None

    def extra_checks(self, tier, rng, cases, impl):
        groups = {}
        for c, o in zip(cases, impl):
            groups.setdefault(c.meta, []).append((c, o))
        bad = []
        for g, items in groups.items():
            ref = items[0][1]
            for c, o in items[1:]:
                if o != ref:
                    # say which observable differs
                    parts = [k for k in ('ast', 'used', 'example', 'openapi') if re.search(k + r'=(\S+)', o) and re.search(k + r'=(\S+)', ref)
                             and re.search(k + r'=(\S+)', o).group(1) != re.search(k + r'=(\S+)', ref).group(1)]
                    bad.append((Case(c.line, c.klass), 'two layouts of the same schema differ (%s): %s vs %s' % (','.join(parts) or 'verdict', o[:100], ref[:100])))
                    break
        # hand-written pairs of layouts the printer never produces (reported by readers of the scanner): only the verdicts
        # and the observables of the two texts are compared, the text model is not asked
        pairs = [
            ('crlf-after-annotated-comma', '{\n"a": 1, // {min: 0}\n/* note */ "b": 2\n}', '{\r\n"a": 1, // {min: 0}\r\n/* note */ "b": 2\r\n}'),
            ('cr-after-annotated-comma', '{\n"a": 1, // {min: 0}\n/* note */ "b": 2\n}', '{\r"a": 1, // {min: 0}\r/* note */ "b": 2\r}'),
            ('comment-over-a-line-end', '{\n"a": 1, ### c ###\n "b": 2 // {min: 0}\n}', '{\n"a": 1, ### c\n ### "b": 2 // {min: 0}\n}'),
            ('comma-first-after-array', '{"a": [1],\n"b": 2 // note\n}', '{"a": [1]\n,"b": 2 // note\n}'),
            ('comma-first-after-object', '{"a": {"c": 1},\n"b": 2 // note\n}', '{"a": {"c": 1}\n,"b": 2 // note\n}'),
            ('comma-first-after-scalar', '{"a": 1,\n"b": 2 // note\n}', '{"a": 1\n,"b": 2 // note\n}'),
            ('blank-line-before-comma', '{"a": [1],\n"b": 2 // note\n}', '{"a": [1]\n\n,\n"b": 2 // note\n}'),
        ]
        lines = []
        for nm, a, b in pairs:
            lines += ['stext ' + hx(a), 'stext ' + hx(b)]
        res = self.run_impl(lines)
        self.hand_pairs = len(pairs)
        for k, (nm, a, b) in enumerate(pairs):
            ra, rb = res[2 * k], res[2 * k + 1]
            if ra != rb:
                bad.append((Case(lines[2 * k + 1], 'hand-written-layout-pair-' + nm),
                            'two layouts of the same schema differ (hand-written pair %s): %s vs %s' % (nm, rb[:80], ra[:80])))
        return bad

    def describe(self):
        return dict(
            rule='each schema model printed under 7 layouts (LF/CRLF/CR x inline or block annotations x quoted or bare rule names x comma before/after the annotation x '
                 '# and ### comments x padding, indentation and blank lines); the annotated sample schemas under context-free transformations (CRLF, CR, blank lines '
                 'around, trailing blanks, extra indentation). All layouts of one schema must give the same verdict, AST (notes modulo line breaks), example, used types '
                 'and OpenAPI JSON',
            trusted=['Coq 8.16.1 kernel', 'model coq/Model/SchemaText.v tied by correspondence on the AST dump of every layout',
                     'printer lib/props/c04.py', 'extraction, driver, harness'],
            assumptions=['annotation placements as in C04'],
            explanation='lexer theorems (blanks, line ends, comments, note styles, comma placement) on the model; correspondence; pairwise comparison of all observables across layouts')
