"""C16 - every rejection is a well-formed, positioned diagnostic."""
import itertools, re
from vf import Case
import samples

ENTRY_ALPHA = {
    'S': ['{', '}', '[', ']', '"', ':', ',', '1', 'a', ' ', '\n', '/', '*', '#', '@', '|', '-', '\t'],
    'E': ['[', ']', '"', ',', '1', 'a', ' ', '\n', '/', '*', '#', '.'],
    'J': ['{', '}', '[', ']', '"', ':', ',', '1', 'a', ' ', '\n', '\\', 'u', '.'],
    'R': ['/', '\\', 'a', '[', ')', ' ', '\n'],
}
INTERNAL_CODES = {0, 1, 305, 306}


def hx(b):
    return b.hex() or '-'


def unhx(h):
    return b'' if h == '-' else bytes.fromhex(h)


def convention(b):
    """the text's own newline convention, or None when it mixes several"""
    has_crlf = b'\r\n' in b
    rest = b.replace(b'\r\n', b'')
    if has_crlf:
        if b.endswith(b'\r') and rest.count(b'\r') == 1 and b'\n' not in rest:
            return 'crlf'       # a CRLF text cut between the CR and the LF of its last line end: still a CRLF text
        return 'crlf' if (b'\r' not in rest and b'\n' not in rest) else None
    if b'\r' in b and b'\n' in b:
        return None
    return 'cr' if b'\r' in b else 'lf'


def spec_line_col(b, i, conv):
    term = {'lf': b'\n', 'cr': b'\r', 'crlf': b'\r\n'}[conv]
    prefix = b[:i]
    line = 1 + prefix.count(term)
    k = prefix.rfind(term)
    start = 0 if k < 0 else k + len(term)
    return line, 1 + i - start


def spec_line_text(b, i, conv):
    term = {'lf': b'\n', 'cr': b'\r', 'crlf': b'\r\n'}[conv]
    k = b[:i].rfind(term)
    start = 0 if k < 0 else k + len(term)
    e = b.find(term, i)
    if conv == 'crlf' and i > 0 and b[i - 1:i + 1] == b'\r\n':   # index on the \n of a terminator
        e = i - 1
    end = len(b) if e < 0 else e
    if conv == 'crlf' and e < 0 and b.endswith(b'\r'):
        end = max(start, len(b) - 1)       # the CR of a line end that was cut off is not part of the line
    return b[start:end]


class Prop:
    id = 'C16'
    level = 'proof'
    theorems_file = 'Properties/C16.v'
    gen_tables = ['ErrFormats']
    exhaustive_note = ''

    def cases(self, tier, rng):
        cs, seen = [], set()

        def add(entry, b, klass):
            line = 'diag %s %s' % (entry, hx(b))
            if line not in seen:
                seen.add(line); cs.append(Case(line, klass))
        maxlen = {'S': 3, 'E': 4, 'J': 3, 'R': 4} if tier == 'quick' else {'S': 4, 'E': 5, 'J': 4, 'R': 6}
        for entry, alpha in ENTRY_ALPHA.items():
            for n in range(0, maxlen[entry] + 1):
                for t in itertools.product(alpha, repeat=n):
                    add(entry, ''.join(t).encode(), 'exh-' + entry)
        self.exhaustive_note = 'all strings up to %r symbols over the per-entry alphabets' % maxlen
        pools = [('S', samples.SCHEMAS), ('E', samples.ENUMS), ('J', samples.JSONS), ('R', samples.REGEXES)]
        extra = {'S': ['SL', 'SA', 'SE', 'SU', 'ST'], 'E': ['EL'], 'J': ['T', 'JL'], 'R': []}
        toks = [b'{', b'}', b'[', b']', b'"', b':', b',', b'//', b'/*', b'*/', b'#', b'@', b'|', b'\t', b' ', b'\n', b'x', b'1', b'-', b'\\', b'%', b'%d', b'%s']
        for entry, pool in pools:
            for text in pool:
                for conv, t in samples.encodings(text):
                    b = t.encode('utf-8')
                    step = 1 if tier != 'quick' or len(b) < 40 else 2
                    for k in range(0, len(b), step):
                        add(entry, b[:k], 'truncated-' + conv)
                    for _ in range(6 if tier == 'quick' else 40):
                        k = rng.randrange(len(b) + 1)
                        m = rng.choice(toks)
                        how = rng.random()
                        mb = b[:k] + m + b[k:] if how < 0.5 else b[:k] + m + b[k + 1:] if how < 0.8 else b[:k] + b[k + 1:]
                        add(entry, mb, 'mutated-' + conv)
                        for e2 in extra[entry]:
                            if rng.random() < 0.3:
                                add(e2, mb, 'mutated-' + conv)
        # the rejected text is a user type of an accepted schema: the position refers to the type's text
        for text in samples.SCHEMAS + ['5 // {min: 9}', '{\n  "k": 1,\n  "x": 5 // {min: 9}\n}', '[\n  1,\n  "s" // {maxLength: 0}\n]', '{\n  "a": @missing\n}',
                                       '"x" // {enum: @e}', '{ // {allOf: "@nope"}\n}', '{\n  "n": 1.5 // {type: "integer"}\n}']:
            for conv, t in samples.encodings(text):
                add('ST', t.encode(), 'user-type-' + conv)
                b = t.encode()
                for _ in range(4 if tier == 'quick' else 30):
                    k = rng.randrange(len(b) + 1)
                    m = rng.choice(toks)
                    add('ST', b[:k] + m + b[k:], 'user-type-mutated-' + conv)
        # the text is a type referred to through a rule, an alternative, a key shortcut, an item, additionalProperties, allOf:
        # empty bodies, bodies of every kind, broken ones
        for text in ['', ' ', '\n', '// note only', '# c', '/* x */', '1', '"s"', 'true', 'null', '{}', '[]', '{', '[1,', '5 // {min: 9}', '@a', '@b', '"s" // {regex: "["}']:
            for k in range(7):
                add('SP%d' % k, text.encode(), 'user-type-in-position')
        # the rejected text is a type another type inherits from: the position of an inherited member refers to the text it was written in
        for text in ['{\n  "k": 5 // {min: 9}\n}', '{\n\n\n  "pad": "' + 'x' * 60 + '",\n  "k": 5 // {min: 9}\n}', '{\n  "a": 1,\n  "s": "abc" // {maxLength: 1}\n}',
                     '{\n  "n": [\n    1.5 // {type: "integer"}\n  ]\n}', '{\n  "m": @missing\n}', '{\n  "deep": {\n    "k": true // {type: "string"}\n  }\n}']:
            for conv, t in samples.encodings(text):
                add('SI', t.encode(), 'inherited-' + conv)
        # long lines: a line of more than 200 bytes is shortened in the quotation, wherever the line stands in the text
        for pad in (0, 1, 3, 30):
            for n in (150, 189, 190, 197, 198, 199, 250, 600):
                for nl in ('\n', '\r\n'):
                    body = '{' + nl + ''.join('  "p%d": %d,%s' % (i, i, nl) for i in range(pad)) + '  "k": "' + 'x' * n + '" x' + nl + '}'
                    for e in ('S', 'SL', 'SA', 'ST', 'J', 'T', 'JL'):
                        add(e, body.encode(), 'long-line')
                    add('E', ('[' + nl + ''.join('  %d,%s' % (i, nl) for i in range(pad)) + '  "' + 'y' * n + '" y' + nl + ']').encode(), 'long-line')
        # messages quote pieces of the input: formatting verbs in the input must come out as they went in
        for entry, texts in [('S', ['{"a": %}', '1 // {"%d": 2}', '"100%" // {type: "email"}', '{\n  "50%s": 1,\n  "50%s": 2\n}', '%v', '1 // {min: %s}', '@%d', '{"a": 1} %x',
                                    '1 // {type: "%v"}', '"a" // {regex: "%("}', '1 // {or: ["%s", "integer"]}', '{ // {allOf: "@%d"}\n}']),
                             ('E', ['[1, %v]', '[%d]', '%s', '["a" %q]', '[1] %x']), ('R', ['%abc/', '/a/ %d', '/(%s/', '%']), ('J', ['{"a": %}', '%d', '[1, %s]', '"a" %v', '{"%d" 1}'])]:
            for t in texts:
                add(entry, t.encode(), 'percent')
                if entry == 'S':
                    for e2 in ('SL', 'SA', 'SE', 'SU'):
                        add(e2, t.encode(), 'percent')
                if entry == 'J':
                    add('T', t.encode(), 'percent')
        # rule values that only fail when they are interpreted (regular expressions that do not compile, ...)
        for rx in ['+', '*', '(', ')', '[a', 'a{2,1}', '\\\\l', '(?<n', '[z-a]', '^[a|-c]+$', 'a**', '\\\\p{Nope}', '(?P<a>x)(?P<a>y)', 'x{1001}']:
            for form in ['"abc" // {regex: "%s"}', '"abc" /* {regex: "%s"} - a note */', '{\n  "k": "abc" // {regex: "%s"}\n}',
                         '"abc" // {or: [{type: "string", regex: "%s"}, "integer"]}', '{ // {additionalProperties: "string"}\n  "k": "v" // {regex: "%s", optional: true}\n}']:
                for e in ('S', 'SL', 'SA', 'SE'):
                    add(e, (form % rx).encode(), 'bad-rule-value')
        # rule values of every JSON kind for every rule: the wrong kind is the author's mistake, with a code of its own
        for name in ['min', 'max', 'minLength', 'maxLength', 'minItems', 'maxItems', 'precision', 'regex', 'type', 'enum', 'const', 'nullable', 'optional',
                     'additionalProperties', 'or', 'allOf', 'exclusiveMinimum', 'exclusiveMaximum']:
            for val in ['5', '"x"', 'true', 'null', '1.5', '[1]', '{}', '-1', '"@t"', '[]', '""', '[""]', '[null]', '{"a": 1}', '"@"', '"#"', '1e999']:
                for ex in ['1', '"a"', '[\n  1\n]', '{}', '1.5', 'null', '@t']:
                    text = (ex[0] + ' // {%s: %s}' % (name, val) + ex[1:]) if ex[0] in '[' else '%s // {%s: %s}' % (ex, name, val)
                    add('S', text.encode(), 'rule-value-kind')
                add('S', ('1 // {or: [{type: "integer", %s: %s}, "string"]}' % (name, val)).encode(), 'rule-value-kind')
                add('S', ('{\n  "k": "a" // {or: [{%s: %s}, {type: "string", %s: %s}]}\n}' % (name, val, name, val)).encode(), 'rule-value-kind')
                add('ST', ('{\n  "k": "a" // {%s: %s}\n}' % (name, val)).encode(), 'rule-value-kind')
        return cs

    def model_lines(self, lines, impl):
        q = []
        for l, o in zip(lines, impl):
            m = re.search(r'idx=(-?\d+)', o)
            if m and int(m.group(1)) >= 0:
                q.append('linecol %s %s' % (l.split(' ')[2], m.group(1)))
            else:
                q.append(None)
        return q

    def project(self, out):
        """line col src ptr as the implementation reports them (src/ptr parsed out of Error())"""
        m = re.search(r'line=(\d+) col=(\d+) str=(\S+)', out)
        if not m:
            return out
        s = m.group(3)
        if s.startswith('panic'):
            return '%s %s render=%s' % (m.group(1), m.group(2), s)
        txt = unhx(s)
        k2 = txt.rfind(b'\n\t--')
        k1 = txt.rfind(b'\n\t> ', 0, k2)
        if k1 < 0 or k2 < 0:
            return '%s %s render=noparse' % (m.group(1), m.group(2))
        return '%s %s src=%s ptr=%s' % (m.group(1), m.group(2), hx(txt[k1 + 4:k2]), hx(txt[k2 + 4:]))

    def project_model(self, out):
        if 'panic' in out:
            m = re.match(r'(\d+) (\d+) ', out)
            p = re.search(r'(panic:\w+)', out).group(1)
            return '%s %s render=%s' % (m.group(1), m.group(2), p)
        return out

    def nontrivial(self, c):
        return len(c.line.split(' ')[2]) > 2

    def oracle(self, case, out):
        _, entry, h = case.line.split(' ')
        b = unhx(h)
        if out == 'ok':
            return None
        if out.startswith('panic') or 'TOOLCRASH' in out:
            return 'entry point %s lets a panic escape: %s' % (entry, out)
        m = re.match(r't=(\S+) code=(-?\d+) idx=(-?\d+) line=(\d+) col=(\d+) str=(\S+)', out)
        if not m:
            return 'unreadable result ' + out
        typ, code, idx, line, col, s = m.group(1), int(m.group(2)), int(m.group(3)), int(m.group(4)), int(m.group(5)), m.group(6)
        if typ.startswith('raw'):
            return 'raw Go error instead of a diagnostic: %s' % typ
        if code in INTERNAL_CODES:
            return 'internal-failure code %d' % code
        if s.startswith('panic'):
            return 'rendering the error panics (%s) for index %d' % (s, idx)
        txt = unhx(s)
        if b'%!' in txt or b'0xc0' in txt or b'runtime error' in txt:
            return 'message dumps internals: %r' % txt[:120]
        if idx < 0:
            return None
        if not (0 <= idx < len(b)):
            return 'error index %d outside the text of %d bytes' % (idx, len(b))
        conv = convention(b)
        if conv is not None:
            l, c = spec_line_col(b, idx, conv)
            if (line, col) != (l, c):
                return 'line/column %d:%d, the byte at index %d is at %d:%d (%s line ends)' % (line, col, idx, l, c, conv)
            lt = spec_line_text(b, idx, conv).lstrip(b' \t\r\n')
            shown = lt if len(spec_line_text(b, idx, conv)) <= 200 else None
            if shown is not None and shown and (b'\n\t> ' + shown + b'\n\t--') not in txt:
                return 'Error() does not quote the line %r' % shown[:80]
        return None

    def shrink_candidates(self, case):
        _, entry, h = case.line.split(' ')
        b = unhx(h)
        for k in range(len(b)):
            yield Case('diag %s %s' % (entry, hx(b[:k] + b[k + 1:])), 'shrunk')

    def describe(self):
        return dict(
            rule='for the schema (Check/Len/GetAST/Example/UsedUserTypes), enum rule (Check/Len), regex and JSON document (both options, '
                 'Check/Len) entry points: all short strings over per-entry alphabets, every truncation and token-level mutations of '
                 'hand-written valid inputs under LF, CRLF and CR. For every rejection with a position the model is asked for '
                 'line/column, source line and pointer of (content, index). non-trivial = more than one byte',
            trusted=['Coq 8.16.1 kernel incl. vm_compute (format table)', 'model coq/Model/LineCol.v tied by correspondence on line, column, '
                     'quoted source line and pointer', 'translator gotables ErrFormats (AST of errs/code.go and of every errs.X.F(...) call)',
                     'harness cmd/implrun/diag.go (hook kit.VerifHasIndex)', 'python oracle: line/column by splitting at the text\'s terminator'],
            assumptions=['line/column are judged only for texts with one newline convention',
                         'that no entry point returns a non-designed error is checked on the explored inputs (and proved for the JSON '
                         'document, number and regex models: C12_total, C13, C18); the schema and enum scanners are not yet modelled'],
            explanation='positions/rendering/format-table theorems + correspondence; designedness of every rejection is exploration for the schema/enum entry points')
