"""C09 - same input, same answer: repetition in one process, in fresh processes, and under permutations of registration."""
import itertools, os, re
import vf
from vf import Case
import samples
from props.c10 import spec, hx


def projects():
    """(root, types, rules) triples, including projects with several independently broken types"""
    ps = [(s, {}, {}) for s in samples.SCHEMAS]
    ps += [(r, t, {}) for r, t in samples.TYPED_SCHEMAS]
    ps.append(('"x" // {enum: @e}', {}, {'@e': '["x", "y"]'}))
    ps.append(('{\n  "a": @a,\n  "b": @b,\n  "c": @c\n}', {'@a': '1 // {min: 5}', '@b': '"x" // {maxLength: 0}', '@c': '[ // {maxItems: 0}\n  1\n]'}, {}))
    ps.append(('@a | @b', {'@a': '{"x": @missing1}', '@b': '{"y": @missing2}'}, {}))
    ps.append(('{\n  "a": @a\n}', {'@a': '{ // {allOf: "@nope"}\n}', '@b': '{ // {allOf: "@nope2"}\n}', '@c': '{ // {allOf: ["@d", "@d"]}\n}', '@d': '{"k": 1}'}, {}))
    ps.append(('{\n  "a": "x@y.z", // {type: "email"}\n  "b": "2020-01-01", // {type: "date"}\n  "c": 1 // {type: "any"}\n}', {}, {}))
    ps.append(('{\n  "a": "x" // {type: "email", minLength: 1}\n}', {}, {}))
    # several refused rules on one node: which one the message names must not depend on chance
    for fmt, ex in [('email', '"a@b.c"'), ('uri', '"http://a.b"'), ('date', '"2020-01-01"'), ('datetime', '"2021-01-02T07:23:12+03:00"'), ('uuid', '"550e8400-e29b-41d4-a716-446655440000"')]:
        ps.append(('%s // {type: "%s", minLength: 1, maxLength: 100}' % (ex, fmt), {}, {}))
        ps.append(('%s // {type: "%s", maxLength: 100, regex: ".", minLength: 1}' % (ex, fmt), {}, {}))
    ps.append(('1 // {type: "any", const: true, min: 0}', {}, {}))
    ps.append(('"s" // {min: 1, precision: 2, minItems: 1, additionalProperties: true}', {}, {}))
    ps.append(('{ // {minLength: 1, min: 1, maxItems: 1, precision: 1, regex: "."}\n}', {}, {}))
    ps.append(('[ // {minLength: 1, min: 1, additionalProperties: true, precision: 1}\n  1\n]', {}, {}))
    ps.append(('{\n  "a": 1 // {or: [{type: "integer", min: 0}, {type: "string", minLength: 1}]}\n}', {}, {}))
    ps.append(('{\n  "a": @a\n}', {'@a': '1 // {or: [{type: "integer"}, {type: "@b"}]}', '@b': '"s" // {or: [{type: "string", minLength: 1}, {type: "@a"}]}'}, {}))
    ps.append(('{\n  "x": 1 // {enum: @e1}\n}', {'@t': '2 // {enum: @e2}'}, {'@e1': '[1, 2]', '@e2': '[2, 3]'}))
    # several broken types whose names are close under case folding, prefixes, digits and punctuation: whichever is visited
    # first decides the reported error, so any visiting order that is not a function of the name set shows here
    ps.append(('{\n  "a": 1\n}', {'@Cat': '{"x": @missingOne}', '@cat': '{"y": @missingTwo}', '@CAT': '{"z": @missingThree}'}, {}))
    ps.append(('{\n  "a": 1\n}', {'@a': '{"x": @m1}', '@a1': '{"y": @m2}', '@a_1': '{"z": @m3}', '@a-1': '{"z": @m4}'}, {}))
    ps.append(('{\n  "a": 1\n}', {'@Ab': '{ // {allOf: "@n1"}\n}', '@aB': '{ // {allOf: "@n2"}\n}', '@ab': '{ // {allOf: "@n3"}\n}'}, {}))
    # several broken unnamed types (alternatives of `or` rule-sets, type choices): they are registered under heap addresses
    ps.append(('{\n  "a": 1 // {or: [{type: "@m1", nullable: true}, {type: "@m2", nullable: true}]}\n}', {}, {}))
    ps.append(('{\n  "k1": @t2,\n  "k2": {\n  }\n}',
               {'@t2': '[\n  1, // {or: [{type: "integer", min: 0}, {type: "@t3", nullable: true}]}\n  {\n    "k3": @t5 | @t3,\n    "k4": "s"\n  },\n  @t3\n]'}, {}))
    ps.append(('{\n  "a": @x1 | @x2,\n  "b": @y1 | @y2,\n  "c": 1 // {or: [{type: "@z1", nullable: true}, {type: "string", minLength: 1}]}\n}', {}, {}))
    ps.append(('@t', {'@t': '{"x": @t}'}, {}))
    ps.append(('{"a": 1,', {'@t': '{"x": '}, {}))
    return ps


def spec_ordered(root, titems, ritems):
    t = [hx(root)]
    for n, body in titems:
        t += ['T', hx(n), 'R' if body.startswith('/') else 'J', hx(body)]
    for n, body in ritems:
        t += ['E', hx(n), hx(body)]
    return ' '.join(t)


class Prop:
    id = 'C09'
    level = 'proof'
    theorems_file = 'Properties/C09.v'
    gen_tables = ['NondetSites']
    uses_model = False
    exhaustive_note = ''

    def cases(self, tier, rng):
        cs = []
        reps = 8 if tier == 'quick' else 32
        gid = 0
        for (root, types, rules) in projects():
            ti, ri = list(types.items()), list(rules.items())
            perms = list(itertools.permutations(ti))
            if len(perms) > 6:
                perms = [tuple(ti)] + rng.sample(perms, 5)
            rperms = list(itertools.permutations(ri))[:2]
            gid += 1
            for tp in perms:
                for rp in rperms:
                    for flag in ['', ' all']:
                        cs.append(Case('rep %d proj all %s%s' % (reps, spec_ordered(root, tp, rp), flag), 'project',
                                       meta=('g%d%s' % (gid, flag))))
                    # one object per type and rule, used again by every repetition (the answers of the group without sharing)
                    if ti and tp == perms[0]:
                        for flag in ['', ' all']:
                            cs.append(Case('rep %d proj all %s%s share' % (reps, spec_ordered(root, tp, rp), flag), 'project-shared-objects',
                                           meta=('g%d%s' % (gid, flag))))
                    # a chain of registrations: the first type on the root, the second on the first, ... (each order is a project
                    # of its own: no comparison between the orders)
                    if ti:
                        cs.append(Case('rep %d proj all %s nest' % (reps, spec_ordered(root, tp, rp)), 'project-nested'))
        # the same schema text with the same types, alone and as one schema of a project whose schemas are all created (and loaded)
        # before the types are registered on each of them - next to schemas with nothing to load, half-way failing ones, a twin
        asks = 'c%d l%d e%d a%d u%d o%d'
        for (root, types, rules) in projects():
            if not types:
                continue
            gid += 1
            m = spec(root, types, rules)
            cs.append(Case('hist %s ;; r0 u0 t0 %s' % (m, asks % ((0,) * 6)), 'project-in-a-project', meta=('late', gid, 'alone')))
            for d in [spec('', types, rules), spec('# nothing here\n', types, rules), spec('{"a": @foo | @bar,', types, rules), m]:
                cs.append(Case('hist %s ; %s ;; r0 u0 r1 u1 t0 t1 %s' % (d, m, asks % ((1,) * 6)), 'project-in-a-project', meta=('late', gid, 'after')))
                cs.append(Case('hist %s ; %s ;; r0 u0 r1 u1 t1 t0 %s' % (m, d, asks % ((0,) * 6)), 'project-in-a-project', meta=('late', gid, 'before')))
        for e in samples.ENUMS + ['["a.b", "c.d"]', '[1, 1]', '[1', '["x", // c\n "y"]']:
            cs.append(Case('rep %d enumrule %s' % (reps, hx(e)), 'enum-rule'))
        for r in samples.REGEXES + ['/[/', 'x', '/a|b/']:
            cs.append(Case('rep %d regex %s' % (reps, hx(r)), 'regex'))
        # one regex object asked several times, and registered as the type of several schemas
        for r in samples.REGEXES + ['/[/', 'x', '/a|b/', '/[a-z]{1,5}\\d?x*/', '/(ab|cd)+[0-9]{2,4}/', '/x*/']:
            cs.append(Case('regexagain %s' % hx(r), 'regex-object-reuse'))
        for j in samples.JSONS + ['{"a":', '[1 2]', '1.']:
            for a in '01':
                cs.append(Case('rep %d json %s %s' % (reps, a, hx(j)), 'json'))
        lits = ['"a.b"', '"1e5"', '1', '1.0', '-0', 'true', 'null', '{', '[', '"x"', 'x.y', '@t', '"', '12e3', '"a.b.c"']
        n = 200 if tier == 'quick' else 5000
        for _ in range(n):
            lits.append('"' + ''.join(rng.choice('ab.eE01 ') for _ in range(rng.randint(0, 8))) + '"')
        for l in lits:
            cs.append(Case('rep %d guess G %s' % (reps, hx(l)), 'guess'))
            cs.append(Case('rep %d num N %s' % (reps, hx(l.strip('"'))), 'number'))
        return cs

    def run_impl(self, lines):
        a = vf.run_impl(lines)
        b = vf.run_impl(lines)          # a second, fresh process: other map seeds, other addresses
        c = vf.run_impl(lines, env=dict(os.environ, GOGC='1'))
        out = []
        for x, y, z in zip(a, b, c):
            out.append(x if x == y == z else 'PROCDIFF %s <> %s <> %s' % (x.replace(' ', '_'), y.replace(' ', '_'), z.replace(' ', '_')))
        return out

    def project(self, out):
        return out

    def nontrivial(self, c):
        return True

    def oracle(self, case, out):
        if out.startswith('DIFF'):
            return 'one regex schema object gives different answers when asked again (or registered again): ' + out[:300]
        if out.startswith('NONDET'):
            return 'different answers for the same input within one process: ' + out[:400]
        if out.startswith('PROCDIFF'):
            return 'different answers for the same input in different processes: ' + out[:400]
        if 'TOOLCRASH' in out:
            return 'crash: ' + out[:200]
        if re.search(r'#?0x[0-9a-f]{6,}', out):
            return 'a heap address leaks into the result: ' + out[:200]
        return None

    def extra_checks(self, tier, rng, cases, impl):
        """registration order: all permutations of one project must give the same results"""
        groups = {}
        late = {}
        for c, o in zip(cases, impl):
            if isinstance(c.meta, tuple):
                late.setdefault(c.meta[1], []).append((c, o))
            elif c.meta:
                groups.setdefault(c.meta, []).append((c, o))
        bad = []
        for g, items in late.items():
            tail = lambda o: o.split(' ')[-7:-1]          # the six answers about the schema itself
            ref = [tail(o) for c, o in items if c.meta[2] == 'alone'][0]
            for c, o in items:
                if tail(o) != ref:
                    bad.append((Case(c.line, 'project-in-a-project'),
                                'the answers for one schema text with one set of types depend on the other schemas of the project: '
                                '%s vs alone %s' % (' '.join(tail(o))[:200], ' '.join(ref)[:200])))
                    break
        for g, items in groups.items():
            ref = items[0][1]
            for c, o in items[1:]:
                if o != ref:
                    bad.append((Case(c.line, 'registration-order'),
                                'the result depends on the order of AddType/AddRule calls: %s vs %s' % (o[:150], ref[:150])))
                    break
        return bad

    def describe(self):
        return dict(
            rule='every project (incl. projects with several independently broken types, nodes with several format-like constraints, '
                 'nested or rule-sets, recursion) under up to 6 permutations of AddType and 2 of AddRule and both registration styles; '
                 'enum rules, regexes, JSON documents, literals for GuessSchemaType/NewNumber; each call repeated 8 times in one process '
                 'and in three processes (one with GOGC=1 to move heap addresses); all public results incl. a hash of the error '
                 'message are compared byte for byte; every typed project also as one schema of a larger project (all schemas created and '
                 'loaded first, types registered afterwards) next to empty, comment-only, half-way failing and twin schemas: the answers '
                 'must be those of the schema alone',
            trusted=['Coq kernel incl. vm_compute', 'translator gotables NondetSites (go/types: every range over a map with the class of its body, every %p)',
                     'the argument that the premises of the generic order-freeness theorems hold at each accounted site (DESIGN)',
                     'harness cmd/implrun/rep.go'],
            assumptions=['nondeterminism that does not come from a map range, a printed address or registration order is outside the inventory (goroutines: C11)'],
            explanation='inventory of all map ranges re-derived from source each run + generic order-freeness theorems per loop shape + repetition as the net')
