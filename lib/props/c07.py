"""C07 - allOf inheritance: own + inherited properties with origin and optionality, or a refusal."""
import itertools, re
from vf import Case
from props.c10 import hx

# node = ('L',) | ('O', ap, [allOf names], [(key, opt, node)])      ap: 0 none, 1 true, 2 false, 3 "string", 4 "integer"
AP = {1: 'true', 2: 'false', 3: '"string"', 4: '"integer"'}


def tname(i):
    return '@t%d' % i


def tok(n):
    if n[0] == 'L':
        return ['L']
    out = ['O', str(n[1]), str(len(n[2]))] + [str(x) for x in n[2]] + [str(len(n[3]))]
    for k, o, v in n[3]:
        out += [str(k), str(o)] + tok(v)
    return out


# how a property key is spelled: "Kx3", or - in every other case - "@Kx3": a quoted key that looks like a type name is a
# plain key all the same, in the type that declares it and in every heir
KEY = ['Kx']


def text(n, indent, opt=False, comma=''):
    pad = '  ' * indent
    if n[0] == 'L':
        return '1' + comma + (' // {optional: true}' if opt else '')
    rules = []
    if n[2]:
        rules.append('allOf: ' + ('"%s"' % tname(n[2][0]) if len(n[2]) == 1 else '[' + ', '.join('"%s"' % tname(x) for x in n[2]) + ']'))
    if n[1]:
        rules.append('additionalProperties: ' + AP[n[1]])
    if opt:
        rules.append('optional: true')
    ann = (' // {%s}' % ', '.join(rules)) if rules else ''
    props = [pad + '  "%s%d": ' % (KEY[0], k) + text(v, indent + 1, bool(o), ',' if i + 1 < len(n[3]) else '') for i, (k, o, v) in enumerate(n[3])]
    return '{' + ann + '\n' + ''.join(x + '\n' for x in props) + pad + '}' + comma


# ---- oracle, independent of the Coq model: the defect classes named by the property and the merged key list
class Refuse(Exception):
    pass


def merged(n, types, stack):
    """properties of an object after inheritance: ([(key, opt, from)], ap); raises Refuse(reason).
    `stack` = the types being expanded; an ancestor is expanded in full (its nested objects too), so a chain that
    comes back to a type on the stack - directly or through a nested object - is cyclic (the structure would be infinite)"""
    props = [(k, o, 0) for k, o, v in n[3]]
    ap = n[1]
    for name in n[2]:
        if name in stack:
            raise Refuse('cyclic inheritance')
        if name not in types:
            raise Refuse('missing type')
        t = types[name]
        if t[0] != 'O':
            raise Refuse('inheritance from a non-object')
        tp, tap = walk(t, types, stack + [name])
        if tap:
            if ap and ap != tap:
                raise Refuse('conflicting additionalProperties')
            ap = tap
        for k, o, _ in tp:
            if any(k == k2 for k2, _, _ in props):
                raise Refuse('duplicated property name')
            props.append((k, o, name))
    return props, ap


def walk(n, types, stack):
    """every object in the tree (nested values included) must be mergeable"""
    if n[0] != 'O':
        return None
    res = merged(n, types, stack)
    for k, o, v in n[3]:
        walk(v, types, stack)
    return res


def expected(root, types):
    """('ok', props) or ('refuse', reason): the root and every registered type must be free of the five defects"""
    try:
        r = walk(root, types, [])
        for name in sorted(types):
            walk(types[name], types, [name])
    except Refuse as e:
        return ('refuse', str(e))
    return ('ok', r[0] if r else [])


class Prop:
    id = 'C07'
    level = 'proof'
    theorems_file = 'Properties/C07.v'
    exhaustive_note = ''

    def mk(self, root, types, style='root'):
        g = tok(root)
        for i in sorted(types):
            g += [';', str(i)] + tok(types[i])
        self.made = getattr(self, 'made', 0) + 1
        KEY[0] = '@Kx' if self.made % 2 == 0 else 'Kx'
        p = [hx(text(root, 0))]
        for i in sorted(types):
            p += ['T', hx(tname(i)), 'J', hx(text(types[i], 0))]
        if style == 'all':
            p.append('all')
        return 'allof ' + ' '.join(g) + ' || ' + ' '.join(p)

    def cases(self, tier, rng):
        cs = []
        L = ('L',)
        # exhaustive: root + 2 types; each has one own key out of a small universe, an allOf list over the two types,
        # and an additionalProperties mode
        lists = [[], [1], [2], [1, 2], [2, 1], [3]]
        aps = [0, 1, 2]
        shapes1 = []
        for al in lists:
            for ap in aps:
                for keys in ([], [0], [1], [0, 1]):
                    shapes1.append((ap, al, keys))
        count = 0
        for r, a, b in itertools.product(shapes1, repeat=3):
            if tier == 'quick' and (count % 7) != 0:
                count += 1
                continue
            count += 1
            def obj(s, base):
                return ('O', s[0], s[1], [(base + k, (base + k) % 2, L) for k in s[2]])
            root = obj(r, 0)
            types = {1: obj(a, 1), 2: obj(b, 2)}
            cs.append(Case(self.mk(root, types), 'exh-3obj'))
        self.exhaustive_note = ('root + 2 types, each with allOf in %d lists (incl. a missing type), additionalProperties in %d modes, own keys from '
                                'overlapping universes: %d combinations%s' % (len(lists), len(aps), count, ' (every 7th at the quick tier)' if tier == 'quick' else ''))
        # non-object parents, additionalProperties pairs (all 5x5), nested objects, chains and diamonds
        for pa, ca in itertools.product(range(5), repeat=2):
            cs.append(Case(self.mk(('O', ca, [1], [(0, 0, L)]), {1: ('O', pa, [], [(1, 1, L)])}), 'ap-pair'))
            cs.append(Case(self.mk(('O', 0, [1, 2], [(0, 0, L)]), {1: ('O', pa, [], [(1, 1, L)]), 2: ('O', ca, [], [(2, 0, L)])}), 'ap-pair-siblings'))
            cs.append(Case(self.mk(('O', ca, [1], []), {1: ('O', 0, [2], [(1, 1, L)]), 2: ('O', pa, [], [(2, 0, L)])}), 'ap-pair-grandparent'))
        cs.append(Case(self.mk(('O', 0, [1], []), {1: L}), 'non-object'))
        for k in range(1, 7):
            # chain root <- t1 <- t2 ... <- tk, and the same chain closed into a cycle
            types = {i: ('O', 0, [i + 1] if i < k else [], [(i, i % 2, L)]) for i in range(1, k + 1)}
            cs.append(Case(self.mk(('O', 0, [1], [(0, 0, L)]), types), 'chain-%d' % k))
            cyc = dict(types)
            cyc[k] = ('O', 0, [1], [(k, 0, L)])
            cs.append(Case(self.mk(('O', 0, [1], [(0, 0, L)]), cyc), 'cycle-%d' % k))
            cs.append(Case(self.mk(('O', 0, [], [(0, 0, L)]), cyc), 'cycle-unused-%d' % k))
        # diamond with and without properties at the top
        for top in ([], [(9, 0, L)]):
            cs.append(Case(self.mk(('O', 0, [1, 2], []), {1: ('O', 0, [3], [(1, 0, L)]), 2: ('O', 0, [3], [(2, 0, L)]), 3: ('O', 0, [], top)}), 'diamond'))
        # every case so far also with every type registered on every type (objects of their own)
        for n, c in enumerate(list(cs)):
            if c.klass != 'exh-3obj' or n % 3 == 0:
                cs.append(Case(c.line + ' all', c.klass + '-all'))
        # a root that only REFERS to the heirs (the inheritance happens in the registered types)
        for k in range(1, 5):
            types = {i: ('O', 0, [i + 1] if i < k + 1 else [], [(i, i % 2, L)]) for i in range(1, k + 2)}
            for style in ('root', 'all'):
                cs.append(Case(self.mk(('O', 0, [], [(0, 0, L)]), types, style), 'heirs-among-the-types-%s' % style))
        # random
        nrand = 3000 if tier == 'quick' else 60000
        for _ in range(nrand):
            nt = rng.randint(1, 6)
            names = list(range(1, nt + 1))
            universe = list(range(0, rng.choice([4, 8, 20])))

            def robj(depth, self_name):
                if rng.random() < 0.08 and depth == 0 and self_name:
                    return L
                nk = rng.randint(0, 3)
                keys = rng.sample(universe, min(nk, len(universe)))
                props = []
                for k in keys:
                    v = robj(depth + 1, None) if (depth < 2 and rng.random() < 0.25) else L
                    props.append((k, int(rng.random() < 0.4), v))
                r = rng.random()
                if r < 0.35:
                    al = []
                elif r < 0.8:
                    al = [rng.choice(names + ([7] if rng.random() < 0.05 else []))]
                else:
                    al = rng.sample(names, min(2, len(names)))
                # mostly acyclic: inherit from larger names only
                if self_name and rng.random() < 0.85:
                    al = [x for x in al if x > self_name]
                ap = rng.choice([0, 0, 0, 0, 1, 2, 3])
                return ('O', ap, al, props)
            root = robj(0, None)
            if root[0] != 'O':
                continue
            types = {i: robj(0, i) for i in names}
            cs.append(Case(self.mk(root, types, rng.choice(['root', 'all'])), 'random'))
        return cs

    def parse(self, line):
        g = line.split(' || ')[0].split(' ')[1:]
        pos = [0]

        def rd():
            t = g[pos[0]]; pos[0] += 1
            if t == 'L':
                return ('L',)
            ap = int(g[pos[0]]); na = int(g[pos[0] + 1]); pos[0] += 2
            al = [int(x) for x in g[pos[0]:pos[0] + na]]; pos[0] += na
            np_ = int(g[pos[0]]); pos[0] += 1
            props = []
            for _ in range(np_):
                k, o = int(g[pos[0]]), int(g[pos[0] + 1]); pos[0] += 2
                props.append((k, o, rd()))
            return ('O', ap, al, props)
        root = rd()
        types = {}
        while pos[0] < len(g) and g[pos[0]] == ';':
            nm = int(g[pos[0] + 1]); pos[0] += 2
            types[nm] = rd()
        return root, types

    @staticmethod
    def norm_keys(s):
        """k3:1:@t2 -> 3:1:2 ; own -> from 0"""
        if s == '-':
            return '-'
        out = []
        for item in s.split(','):
            k, o, fr = item.split(':')
            k = k[1:] if k.startswith('@Kx') else k
            out.append('%s:%s:%s' % (k[2:] if k.startswith('Kx') else k, o, fr[2:] if fr.startswith('@t') else (fr or '0')))
        return ','.join(out)

    def project(self, out):
        m = re.match(r'check=(\S+) keys=(\S+)', out)
        if not m:
            return out
        return 'check=%s keys=%s' % (m.group(1), self.norm_keys(m.group(2)))

    def nontrivial(self, c):
        root, types = self.parse(c.line)
        return bool(root[0] == 'O' and root[2])

    def oracle(self, case, out):
        if 'panic' in out or 'TOOLCRASH' in out:
            return 'crash: ' + out[:200]
        m = re.match(r'check=(\S+) keys=(\S+)(?: ex=(\S+) info=(\S+))?', out)
        if not m:
            return None if out.startswith('build=') else 'unreadable result ' + out[:200]
        chk, keys, ex, info = m.group(1), m.group(2), m.group(3), m.group(4)
        if ' reqbad=' in out:
            return ('after the inheritance was compiled an object lists a required key it has no mandatory member for, or lacks one (%s)'
                    % out.split(' reqbad=')[1][:80])
        root, types = self.parse(case.line)
        want = expected(root, types)
        if want[0] == 'refuse':
            if chk == 'ok':
                return 'Check() accepts although there is %s' % want[1]
            return None
        if chk != 'ok':
            return 'Check() refuses (%s) a schema free of the five inheritance defects' % chk
        exp = ','.join('%d:%d:%d' % p for p in want[1]) or '-'
        if self.norm_keys(keys) != exp:
            return 'compiled properties %s, expected own + inherited = %s' % (self.norm_keys(keys), exp)
        # the registered types as the compiled root knows them (a reference from the root reaches these objects)
        tk = re.search(r' tkeys=(\S+)', out)
        if tk:
            for part in tk.group(1).split(';'):
                nm, ks = part.split('=', 1)
                i = int(nm[2:])
                if i in types and types[i][0] == 'O':
                    texp = ','.join('%d:%d:%d' % p for p in merged(types[i], types, [i])[0]) or '-'
                    if self.norm_keys(ks) != texp:
                        return ('type %s as the compiled root schema knows it has the properties %s, expected own + inherited = %s'
                                % (nm, self.norm_keys(ks), texp))
        kp = '@Kx' if '22404b78' in case.line.split(' || ')[1] else 'Kx'       # "@Kx in the schema text
        ek = ','.join('%s%d' % (kp, p[0]) for p in want[1]) or '-'
        if ex is not None and ex != ek:
            return 'Example() shows keys %s, expected %s' % (ex, ek)
        ik = ','.join('%s%d:%d' % (kp, p[0], p[1]) for p in want[1]) or '-'
        if info is not None and info != ik:
            return 'OpenAPI property listing shows %s, expected %s' % (info, ik)
        # keys at every depth of the example (nested objects of inherited types too) are spelled as in the source
        md = re.search(r' deep=(\S+)', out)
        if md and md.group(1) != '-':
            odd = [k for k in md.group(1).split(',') if not re.match(r'@?Kx\d+$', k)]
            if odd:
                return 'Example() has keys that no type of the schema spells that way: %s' % ','.join(odd)
        return None

    def shrink_candidates(self, case):
        root, types = self.parse(case.line)
        used = ' '.join(tok(root) + sum((tok(v) for v in types.values()), []))
        for t in list(types):
            rest = {k: v for k, v in types.items() if k != t}
            yield Case(self.mk(root, rest), 'shrunk')

    def describe(self):
        return dict(
            rule='inheritance graphs: root + 2 types exhaustively over allOf lists (single, pairs in both orders, a missing type), additionalProperties '
                 'modes and overlapping key sets; all 5x5 additionalProperties pairs child/parent, sibling parents and grandparent; chains and cycles '
                 'of length 1..6 (used and unused by the root); diamonds; a non-object parent; random graphs over up to 6 types with nested objects. '
                 'non-trivial = the root has an allOf rule',
            trusted=['Coq 8.16.1 kernel', 'model coq/Model/AllOf.v tied by correspondence on verdict code and compiled property list (key, optional, origin)',
                     'schema text printer and the merge oracle in lib/props/c07.py', 'extraction, driver, harness (reads the compiled node tree, Example() and the OpenAPI informer)'],
            assumptions=['objects with allOf nested inside arrays are not generated', 'type names @t1..@t9 so that the name order is the numeric order'],
            explanation='compiler model with theorems; tie by correspondence on generated graphs; independent merge oracle')
