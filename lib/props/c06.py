"""C06 - no false recursion alarms; self-requiring roots are reported; Example() ends."""
import itertools, re
from vf import Case
from props.c10 import hx

# node = ('L', o, u) | ('A', o, u, [nodes]) | ('O', o, u, [nodes]) | ('R', o, u, [names])


def tok(n):
    k = n[0]
    f = '%s%d%d' % (k, n[1], n[2])
    if k == 'L':
        return [f]
    if k == 'R':
        return [f, str(len(n[3]))] + [str(x) for x in n[3]]
    out = [f, str(len(n[3]))]
    for c in n[3]:
        out += tok(c)
    return out


def tname(i):
    return '@t%d' % i


MIXED_ANN = [False]     # write type choices as `@a | @b // {type: "mixed"}` (the same schema, said twice)


def text(n, indent, is_prop, comma=''):
    """schema text of a node followed by `comma`; the comma of a scalar goes before its annotation"""
    pad = '  ' * indent
    k = n[0]
    rules = []
    if k == 'R' and len(n[3]) > 1 and MIXED_ANN[0]:
        rules.append('type: "mixed"')
    if n[1] and is_prop:
        rules.append('optional: true')
    if n[2]:
        rules.append('nullable: true')
    ann = (' // {%s}' % ', '.join(rules)) if rules else ''
    if k == 'L':
        return '1' + comma + ann
    if k == 'R':
        return ' | '.join(tname(x) for x in n[3]) + comma + ann
    if k == 'A':
        items = [pad + '  ' + text(c, indent + 1, False, ',' if i + 1 < len(n[3]) else '') for i, c in enumerate(n[3])]
        return '[' + ann + '\n' + ''.join(x + '\n' for x in items) + pad + ']' + comma
    props = [pad + '  "p%d": ' % i + text(c, indent + 1, True, ',' if i + 1 < len(n[3]) else '') for i, c in enumerate(n[3])]
    return '{' + ann + '\n' + ''.join(x + '\n' for x in props) + pad + '}' + comma


def skippable(n):
    return bool(n[1] or n[2])


# ---- oracle: instantiability (least fixed point) and mandatory chains, computed independently of the model
def instantiable(rootname, rootnode, types):
    """True when the root schema has a finite instance; unknown types count as instantiable"""
    inst = {}   # type name -> bool (least fixed point by iteration)
    names = list(types) + [rootname]

    def node_inst(n, cur):
        if skippable(n) or n[0] in 'LA':
            return True
        if n[0] == 'O':
            return all(node_inst(c, cur) for c in n[3])
        if not n[3]:
            return True
        return any(t_inst(t) for t in n[3])

    def t_inst(t):
        if t == rootname or t in types:
            return inst.get(t, False)
        return True
    changed = True
    body = dict(types)
    body[rootname] = rootnode
    while changed:
        changed = False
        for t in names:
            if not inst.get(t, False) and node_inst(body[t], None):
                inst[t] = True
                changed = True
    return inst.get(rootname, False)


def self_requiring(rootname, rootnode, types):
    """root requires itself through a chain of mandatory single-name links (not through arrays)"""
    seen = set()

    def mand_refs(n):
        if skippable(n):
            return []
        if n[0] == 'O':
            out = []
            for c in n[3]:
                out += mand_refs(c)
            return out
        if n[0] == 'R' and len(n[3]) == 1:
            return [n[3][0]]
        return []
    frontier = mand_refs(rootnode)
    while frontier:
        t = frontier.pop()
        if t == rootname:
            return True
        if t in seen or t not in types:
            continue
        seen.add(t)
        frontier += mand_refs(types[t])
    return False


def empty_example_of_a_reference_root(case, reason):
    """F06e: the checked schema is a bare reference or choice, and a plain mandatory cycle AMONG THE OTHER types is reached"""
    g = case.line.split(' || ')[0].split(' ')
    return len(g) > 3 and g[3].startswith('R')


class Prop:
    id = 'C06'
    known_matchers = {'empty_example_of_a_reference_root': empty_example_of_a_reference_root}
    level = 'proof'
    theorems_file = 'Properties/C06.v'
    exhaustive_note = ''

    def mk(self, rootnode, types, style, mixed=False):
        """root is type 0 (its file name is @t0); types: dict index -> node (indices >= 1)"""
        MIXED_ANN[0] = mixed
        types = dict(types)
        types[0] = rootnode          # the checked type is registered under its own name as well
        g = ['0', style] + tok(rootnode)
        for i, n in types.items():
            g += [';', str(i)] + tok(n)
        p = [hx(text(rootnode, 0, False)), 'N', hx(tname(0))]
        for i, n in types.items():
            p += ['T', hx(tname(i)), 'J', hx(text(n, 0, False))]
        if style == 'all':
            p.append('all')
        return 'rec ' + ' '.join(g) + ' || ' + ' '.join(p)

    def cases(self, tier, rng):
        cs = []
        # edge kinds of a property: required ref, optional ref, nullable ref, array of ref, choice, literal
        def prop_kinds(targets):
            ks = [('L', 0, 0)]
            for t in targets:
                ks += [('R', 0, 0, [t]), ('R', 1, 0, [t]), ('R', 0, 1, [t]), ('A', 0, 0, [('R', 0, 0, [t])])]
            for a, b in itertools.combinations_with_replacement(targets, 2):
                if a != b:
                    ks.append(('R', 0, 0, [a, b]))
            return ks
        # exhaustive: root + 2 types, each an object with one property (chains/cycles of every edge kind),
        ntypes = 2 if tier == 'quick' else 3
        targets = list(range(0, ntypes + 1))
        kinds = prop_kinds(targets)
        count = 0
        for combo in itertools.product(kinds, repeat=ntypes + 1):
            root = ('O', 0, 0, [combo[0]])
            types = {i: ('O', 0, 0, [combo[i]]) for i in range(1, ntypes + 1)}
            for style in ('root', 'all'):
                cs.append(Case(self.mk(root, types, style), 'exh-1prop'))
            if any(len(k[3]) > 1 for k in combo if k[0] == 'R'):
                cs.append(Case(self.mk(root, types, 'root', mixed=True), 'exh-1prop-mixed-annotated'))
            # the same graph with `nullable: true` on the root value of one type (null is then an instance of that type)
            for j in range(1, ntypes + 1):
                tn = dict(types)
                tn[j] = ('O', 0, 1, [combo[j]])
                cs.append(Case(self.mk(root, tn, 'root'), 'exh-1prop-nullable-type'))
            count += 1
        # the root with two properties (order matters: an earlier choice whose failed alternative leaves state behind)
        k2 = prop_kinds([0, 1, 2])
        for a, b, c1, c2 in itertools.product(k2, k2, k2, k2):
            if a[0] != 'R' and b[0] != 'R':
                continue
            root = ('O', 0, 0, [a, b])
            types = {1: ('O', 0, 0, [c1]), 2: ('O', 0, 0, [c2])}
            cs.append(Case(self.mk(root, types, 'root'), 'exh-2prop-root'))
        self.exhaustive_note = ('all graphs over root + %d types with one property each over %d edge kinds, both registration styles; '
                                'all graphs with a two-property root over 2 one-property types' % (ntypes, len(kinds)))
        # the checked schema, or a type on the way, is not an object but a bare reference or a choice
        tops = [('R', 0, 0, [1]), ('R', 0, 0, [2]), ('R', 0, 0, [1, 2]), ('R', 0, 1, [1]), ('A', 0, 0, [('R', 0, 0, [1])])]
        k3 = prop_kinds([0, 1, 2])
        for top, c1, c2 in itertools.product(tops, k3, k3):
            for t1 in (('O', 0, 0, [c1]), (c1[0], 0) + tuple(c1[2:]) if c1[0] == 'R' and not c1[1] else None):
                if t1 is None:
                    continue
                types = {1: t1, 2: ('O', 0, 0, [c2])}
                for style in ('root', 'all'):
                    cs.append(Case(self.mk(top, types, style), 'exh-root-is-a-reference'))
        for k in range(1, 6):
            # root = @t1, t1 -> t2 -> ... -> tk -> root
            nodes = {i: ('O', 0, 0, [('L', 0, 0), ('R', 0, 0, [(i + 1) % (k + 1)])]) for i in range(1, k + 1)}
            cs.append(Case(self.mk(('R', 0, 0, [1]), nodes, 'root'), 'chain-%d-from-a-reference-root' % k))
            if k >= 2:
                n2 = dict(nodes)
                n2[2] = ('O', 0, 0, [('R', 0, 0, [0])])
                cs.append(Case(self.mk(('R', 0, 0, [1, 2]), n2, 'root'), 'chain-%d-from-a-choice-root' % k))
        # long chains: root -> t1 -> ... -> tk -> root, with one link of each kind somewhere
        for k in range(1, 7):
            for weak in [None] + [(j, kind) for j in range(k + 1) for kind in ('opt', 'nul', 'arr')]:
                nodes = {}
                for i in range(k + 1):
                    tgt = (i + 1) % (k + 1)
                    link = ('R', 0, 0, [tgt])
                    if weak and weak[0] == i:
                        link = {'opt': ('R', 1, 0, [tgt]), 'nul': ('R', 0, 1, [tgt]), 'arr': ('A', 0, 0, [('R', 0, 0, [tgt])])}[weak[1]]
                    nodes[i] = ('O', 0, 0, [('L', 0, 0), link])
                root = nodes.pop(0)
                for style in ('root', 'all'):
                    cs.append(Case(self.mk(root, nodes, style), 'chain-%d' % k))
                if weak is None:
                    for j in nodes:
                        nn = dict(nodes)
                        nn[j] = ('O', 0, 1, nodes[j][3])
                        cs.append(Case(self.mk(root, nn, 'root'), 'chain-%d-nullable-type' % k))
                    # a type of the chain also has an optional member that is a choice (types of its own are registered in its table):
                    # the chain of plain mandatory links is what it was
                    for j in nodes:
                        nn = dict(nodes)
                        nn[j] = ('O', 0, 0, [('R', 1, 0, [j, (j + 1) % (k + 1)])] + list(nodes[j][3]))
                        for style in ('root', 'all'):
                            cs.append(Case(self.mk(root, nn, style), 'chain-%d-choice-aside' % k))
        # random graphs over up to 6 types, up to 3 properties, nested objects
        nrand = 1500 if tier == 'quick' else 30000
        for _ in range(nrand):
            nt = rng.randint(1, 6)
            tg = list(range(0, nt + 1))

            def rnode(depth):
                r = rng.random()
                if r < 0.15 or depth > 2:
                    return ('L', int(rng.random() < 0.2), int(rng.random() < 0.1))
                if r < 0.6:
                    m = 1 if rng.random() < 0.7 else 2
                    return ('R', int(rng.random() < 0.3), int(rng.random() < 0.15), rng.sample(tg, min(m, len(tg))))
                if r < 0.75:
                    return ('A', int(rng.random() < 0.2), 0, [noopt(rnode(depth + 1)) for _ in range(rng.randint(0, 2))])
                return ('O', int(rng.random() < 0.2), int(rng.random() < 0.1), [rnode(depth + 1) for _ in range(rng.randint(0, 3))])

            def noopt(n):
                return (n[0], 0) + tuple(n[2:])

            def robj():
                return ('O', 0, int(rng.random() < 0.15), [rnode(1) for _ in range(rng.randint(0, 3))])
            root = robj()
            types = {i: robj() for i in range(1, nt + 1)}
            cs.append(Case(self.mk(root, types, rng.choice(['root', 'all']), mixed=rng.random() < 0.3), 'random'))
        return cs

    def parse(self, line):
        g = line.split(' || ')[0].split(' ')[1:]
        rootname, style = int(g[0]), g[1]
        pos = [2]

        def rd():
            t = g[pos[0]]; pos[0] += 1
            k, o, u = t[0], int(t[1]), int(t[2])
            if k == 'L':
                return ('L', o, u)
            n = int(g[pos[0]]); pos[0] += 1
            if k == 'R':
                ns = [int(x) for x in g[pos[0]:pos[0] + n]]; pos[0] += n
                return ('R', o, u, ns)
            return (k, o, u, [rd() for _ in range(n)])
        root = rd()
        types = {}
        while pos[0] < len(g) and g[pos[0]] == ';':
            pos[0] += 1
            nm = int(g[pos[0]]); pos[0] += 1
            types[nm] = rd()
        types.pop(rootname, None)
        return rootname, style, root, types

    def project(self, out):
        m = re.match(r'check=(\S+) ex=(\S+)', out)
        if not m:
            return out
        c = m.group(1)
        if c not in ('ok', '104'):
            return 'other ' + out
        if c == 'ok' and m.group(2) == '-':
            return 'check=ok ex=none'          # nothing written at all: the model's None at the top
        return out

    def nontrivial(self, c):
        return ' R00 ' in c.line

    def oracle(self, case, out):
        if 'panic' in out or 'TOOLCRASH' in out:
            return 'Check/Example does not return: ' + out[:200]
        m = re.match(r'check=(\S+) ex=(\S+)', out)
        if not m:
            return None if out.startswith('build=') else 'unreadable result ' + out[:200]
        chk, ex = m.group(1), m.group(2)
        rootname, style, root, types = self.parse(case.line)
        if chk == '104' and instantiable(rootname, root, types):
            return 'infinite recursion reported for a root schema that has a finite instance'
        if chk != '104' and self_requiring(rootname, root, types):
            return 'the root requires itself through a chain of mandatory links but Check() says %s' % chk
        if chk == 'ok':
            if ex.startswith('INVALIDJSON'):
                return 'Example() of an accepted schema is not JSON: ' + ex[:120]
            if ex == '-':
                return 'Example() of an accepted schema is empty (no JSON value at all)'
            if ex.startswith('err') or ex == 'none':
                return 'Example() of an accepted schema fails: ' + ex[:120]
        return None

    def extra_checks(self, tier, rng, cases, impl):
        """links the graph model has no edge kind for: members behind a key shortcut (any number of them, none included, so what
        their value refers to is not required); hand-written, with the verdict the property demands"""
        import vf
        from props.c10 import spec
        K = {'@k': '"key"'}
        hand = [
            ('{\n  "a": 1,\n  @k: @main\n}', 'ok'),
            ('{\n  @k: @main\n}', 'ok'),
            ('{\n  "a": 1,\n  @k: {\n    "deep": @main\n  }\n}', 'ok'),
            ('{\n  "a": @main,\n  @k: 1\n}', '104'),
            ('{\n  @k: @other\n}', 'ok'),
            ('{\n  "x": @other,\n  @k: 1\n}', '104'),
        ]
        lines = []
        for body, want in hand:
            types = dict(K)
            types['@main'] = body
            types['@other'] = '{\n  "back": @main\n}'
            lines.append('proj all %s N %s' % (spec(body, types), hx('@main')))
        # schemas created with AreKeysOptionalByDefault: a member without an `optional` rule is optional there
        for body, want in [('{\n  "a": @main\n}', 'ok'), ('{\n  "a": @other\n}', 'ok'), ('{\n  "a": @main // {optional: false}\n}', '104')]:
            types = {'@main': body, '@other': '{\n  "back": @main\n}'}
            hand.append((body + '   [keys optional by default]', want))
            lines.append('proj all %s N %s optdef' % (spec(body, types), hx('@main')))
        bad = []
        self.hand_cases = len(lines)
        for l, o, (body, want) in zip(lines, vf.run_impl(lines), hand):
            m = re.match(r'check=(\S+)', o)
            got = 'unreadable' if not m else 'ok' if m.group(1) == 'ok' else '104' if m.group(1).startswith('err:104@') else m.group(1)
            if got != want:
                bad.append((Case(l, 'hand-written-key-shortcut-links'),
                            ('infinite recursion reported for a schema that has a finite instance (%s)' if want == 'ok' else
                             'the root requires itself through a chain of mandatory links but Check() does not say so (%s)') % body.replace('\n', ' ')[:80]
                            + ': Check() = ' + got[:40]))
        return bad

    def shrink_candidates(self, case):
        rootname, style, root, types = self.parse(case.line)
        for t in list(types):
            rest = {k: v for k, v in types.items() if k != t}
            # drop a type only when nothing refers to it
            if str(t) not in ' '.join(tok(root) + sum((tok(v) for v in rest.values()), [])):
                yield Case(self.mk(root, rest, style), 'shrunk')

    def describe(self):
        return dict(
            rule='type-reference graphs: exhaustive over root + 2 types with every edge kind (required / optional / nullable / through an '
                 'array / choice / none), chains root -> t1 -> ... -> tk -> root for k <= 6 with one weakened link at every position, '
                 'random graphs over up to 6 types with nested objects; both registration styles (types on the root only; every type on '
                 'every type). The root schema carries the file name of type 0. non-trivial = contains a required reference',
            trusted=['Coq 8.16.1 kernel', 'model coq/Model/Recursion.v tied by correspondence on the 104 verdict and the shape of Example()',
                     'schema text printer in lib/props/c06.py', 'oracle: least-fixed-point instantiability and mandatory-chain search in python',
                     'extraction, driver, harness'],
            assumptions=['only value shortcuts (@t, @a | @b) are links; a `type: "@t"` rule on a literal is not followed by the checker'],
            explanation='checker and example-builder model with theorems; tie by correspondence on generated graphs; independent graph oracle')
