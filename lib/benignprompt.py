#!/usr/bin/env python3
"""Writes the prompt for a sub-agent that makes a behaviour-PRESERVING refactoring of one area of the library
(usage: benignprompt.py ROUND).  The checks must stay quiet on such a change; whatever raises an alarm on it is looked at
(a tie that is tighter than the property needs is loosened only where that is sound, see DESIGN 12.4)."""
import sys
rnd = sys.argv[1]
AREAS = {
 'A': ('the JSight schema scanner', ['notations/jschema/scanner/scanner.go', 'notations/jschema/scanner/scanner_annotations.go']),
 'B': ('the schema loader and rule loaders', ['notations/jschema/loader/loader.go', 'notations/jschema/loader/embedded_loader_for_rule.go', 'notations/jschema/loader/embedded_loader_for_rule_or_value.go', 'notations/jschema/loader/embedded_loader_for_rule_enum_value.go', 'notations/jschema/loader/embedded_loader_for_node.go']),
 'C': ('the compiler and checker', ['notations/jschema/loader/compiler_basic.go', 'notations/jschema/loader/compiler_all_of.go', 'notations/jschema/checker/check_schema.go', 'notations/jschema/checker/check_recusrion.go', 'notations/jschema/checker/list.go']),
 'D': ('example generation, the JSchema facade and the internal sync helpers', ['notations/jschema/example.go', 'notations/jschema/jschema.go', 'notations/jschema/user_types_collector.go', 'internal/sync/pool.go', 'internal/sync/erronce.go']),
 'E': ('the OpenAPI converter', ['openapi/internal/jsoac/*.go', 'openapi/internal/ast_node.go', 'openapi/internal/tools.go', 'openapi/internal/rsoac/*.go']),
 'F': ('decimal numbers, byte helpers and the JSON document scanner', ['json/number.go', 'json/scanner.go', 'bytes/bytes.go', 'formats/json/scanner.go', 'formats/json/json.go', 'internal/ds/stack.go']),
 'G': ('enum rule files and regex schemas', ['rules/enum/enum.go', 'rules/enum/scanner.go', 'rules/enum/enum_item_value.go', 'notations/regex/regex.go']),
 'H': ('the type vocabulary, the ordered containers and the internal schema nodes', ['type.go', 'json/guess.go', 'json/json_type.go', 'ast_node.go', 'internal/cmd/generator/orderedmap.go', 'rule_ast_nodes_gen.go', 'ast_nodes_gen.go', 'notations/jschema/ischema/constraints_gen.go', 'notations/jschema/ischema/object_node.go', 'notations/jschema/ischema/mixed_value_node.go', 'notations/jschema/ischema/constraint/*.go']),
}
base = '''You are working inside the git worktree %(wt)s (a checkout of the Go library github.com/jsightapi/jsight-schema-core). Do not read or touch /verif or /repo or any other directory (apart from the Go toolchain and module cache). Do not commit anything. Do NOT use `git stash`.

Environment for every shell command: export GOFLAGS=-mod=mod GOPROXY=off GOSUMDB=off GOTOOLCHAIN=local   (there is no network).
The library's full test suite is run with:  cd %(wt)s && go test -vet=off -count=1 ./...   (about 10 s; on the unchanged tree everything passes except TestEnum_String in notations/jschema/ischema/constraint, which fails under this Go version with or without your change - ignore that one test).

Your task: act as a maintainer who cleans up %(what)s. In these files (and only there, plus whatever other file a moved declaration needs):
%(files)s
make a REALISTIC, NON-TRIVIAL, strictly BEHAVIOUR-PRESERVING refactoring - about 5 to 10 independent edits of the kinds maintainers really make: rename unexported functions, fields and local variables; extract a helper function or inline one; reorder independent statements or independent switch cases; turn a switch into an if-chain or the reverse; replace a loop by an equivalent one (index loop <-> range loop over a SLICE, early return <-> flag); pre-size a slice or a map; replace a hand-written helper by an equivalent standard-library call; move a function to another file of the same package; merge or split a state function of a scanner where the resulting behaviour is identical for every input; add, fix or reword COMMENTS; replace a magic number by a named constant; simplify a boolean condition into an equivalent one.

Hard constraints: for EVERY possible input and call sequence the exported behaviour must stay exactly the same - same accepted/rejected inputs, same error codes, same error message texts, same positions, same returned values, byte for byte, same order of everything returned, no new data race, no new shared mutable state, the same determinism. Do not change exported identifiers or their signatures, do not touch tests, go.mod or build tags, do not add files outside the packages named above, do not introduce iteration over a Go map where there was none, and do not change which errors are wrapped in which.
If you are not completely sure that an edit preserves behaviour for all inputs, do not make it.

Then: run gofmt on the files you touched, run the full test suite (it must pass exactly as before), and write
 %(wt)s/benign/patch.diff   - output of `git diff -- . ':!benign'`
 %(wt)s/benign/README.txt   - one line per edit: file, function, what kind of edit, and why it cannot change behaviour.
Leave the worktree with the change applied. In your final answer list the edits.
'''
for k, (what, files) in AREAS.items():
    wt = '/tmp/benign%s_%s' % (rnd, k)
    open('/tmp/benign%s_prompt_%s.txt' % (rnd, k), 'w').write(base % dict(wt=wt, what=what, files='\n'.join('  ' + f for f in files)))
print(' '.join(AREAS))
