import re
# ---------- 1. RuleSem: fuel definitions in the model ----------
p='/verif/coq/Model/RuleSem.v'; s=open(p).read()
if 'Definition proj_fuel' not in s:
    old="(* checkLinksOfNode: the example's json type must be among the types of the alternatives (null for a nullable one) *)"
    new="""(* fuel for `leaves`: one unit per alternative looked at; every type is expanded once (Proofs/LeavesComplete.v) *)
Definition node_size (n : vnode) : nat := match n with VRefs inner => length inner | _ => 0 end.
Fixpoint weight (dd : vtypes) (seen : list tname) : nat :=
  match dd with
  | [] => 0
  | (t, (_, n)) :: r => (if memn t seen then 0 else S (node_size n)) + weight r seen
  end.
Definition proj_fuel (d : vtypes) (root : bytes * vnode) : nat := S (node_size (snd root) + 2 * weight d []).

""" + old
    assert old in s; s=s.replace(old,new,1); open(p,'w').write(s)
# ---------- 2. LeavesComplete: use the model's definitions ----------
p='/verif/coq/Proofs/LeavesComplete.v'; s=open(p).read()
a=s.index("  Definition node_size (n : vnode)"); b=s.index("  Definition subset (s1 s2")
s=s[:a]+s[b:]
s=s.rstrip('\n')+"""

(* the fuel the model runs with covers the walk from the root and from every registered type *)
Lemma node_size_le_weight d : forall t ex n, In (t, (ex, n)) d -> node_size n <= weight d [].
Proof.
  induction d as [|[t' [ex' n']] r IH]; intros t ex n H; [inversion H|]. cbn [weight memn]. destruct H as [E|H].
  - inversion E; subst. lia.
  - specialize (IH t ex n H). lia.
Qed.
Theorem proj_fuel_enough d root : (forall alts, snd root = VRefs alts -> length alts + weight d [] < proj_fuel d root) /\\
  (forall t ex alts, In (t, (ex, VRefs alts)) d -> length alts + weight d [] < proj_fuel d root).
Proof.
  unfold proj_fuel. split.
  - intros alts E. rewrite E. cbn [node_size]. lia.
  - intros t ex alts H. pose proof (node_size_le_weight d t ex (VRefs alts) H) as Hn. cbn [node_size] in Hn. lia.
Qed.
"""
open(p,'w').write(s)
# ---------- 3. RunRules: the model runs with proj_fuel ----------
p='/verif/coq/Extract/RunRules.v'; s=open(p).read()
s=s.replace("    | Some d => if check_project 1000 d root then B\"ok\" else B\"value\"","    | Some d => if check_project (proj_fuel d root) d root then B\"ok\" else B\"value\"")
open(p,'w').write(s)
# ---------- 4. SchemaTextProofs: block annotations through block_ann ----------
p='/verif/coq/Proofs/SchemaTextProofs.v'; s=open(p).read()
old="""    SLay (47 :: 42 :: text ++ 42 :: 47 :: r) (KAnn (mk_ann [] (trim text)) :: t)."""
new="""    SLay (47 :: 42 :: text ++ 42 :: 47 :: r) (KAnn (mk_ann [] (trim text)) :: t)
(* a block annotation in general (Proofs/AnnotationProofs.v says which texts are read as which annotation) *)
| sl_block x a r t : block_ann x = Some (a, r) -> (length r <= length x)%nat -> SLay r t -> SLay (47 :: 42 :: x) (KAnn a :: t)."""
assert old in s; s=s.replace(old,new,1)
old="""|text a r t Ht Hp Hr _ IH|text r t Hno Hedge Hnote _ IH];
    intros f Hf."""
new="""|text a r t Ht Hp Hr _ IH|text r t Hno Hedge Hnote _ IH|x a r t Hb Hlen _ IH];
    intros f Hf."""
assert old in s; s=s.replace(old,new,1)
old="""    cbn [length] in Hf. rewrite app_length in Hf. cbn [length] in Hf. lia.
Qed.

(* layout independence of the model, in one statement"""
new="""    cbn [length] in Hf. rewrite app_length in Hf. cbn [length] in Hf. lia.
  - destruct f; [lia|]. cbn [slex]. change (is_blank 47) with false. cbn [N.eqb Pos.eqb]. rewrite Hb.
    rewrite IH; [reflexivity|]. cbn [length] in Hf. lia.
Qed.

(* layout independence of the model, in one statement"""
assert old in s; s=s.replace(old,new,1)
open(p,'w').write(s)
# ---------- 5. _CoqProject ----------
p='/verif/coq/_CoqProject'; s=open(p).read()
if 'Proofs/LeavesComplete.v' not in s:
    s=s.replace('Proofs/RuleProofs.v\n','Proofs/RuleProofs.v\nProofs/LeavesComplete.v\n')
if 'Proofs/AnnotationProofs.v' not in s:
    s=s.replace('Proofs/SchemaTextProofs.v\n','Proofs/SchemaTextProofs.v\nProofs/AnnotationProofs.v\n')
open(p,'w').write(s)
print('late patch applied')
p='/verif/coq/_CoqProject'; s=open(p).read()
if 'Proofs/SchemaLexTotal.v' not in s:
    s=s.replace('Proofs/AnnotationProofs.v\n','Proofs/AnnotationProofs.v\nProofs/SchemaLexTotal.v\n')
open(p,'w').write(s)
