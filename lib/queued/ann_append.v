
(* ---------- as layouts of the token sequence (SLay) ---------- *)
Lemma slay_block_rules ms obj w0 mid r t : RV (RObj ms) obj -> ws w0 ->
  (forall u v, mid <> u ++ 42 :: 47 :: v) -> (forall u, mid <> u ++ [42]) -> trim_left mid = [] -> SLay r t ->
  SLay (47 :: 42 :: w0 ++ obj ++ mid ++ 42 :: 47 :: r) (KAnn (mk_ann ms []) :: t).
Proof.
  intros Ho H0 Hno Hedge Hm Hr. apply (sl_block _ _ r); [|rewrite !app_length; cbn [length]; lia|exact Hr].
  rewrite (block_rules_complete ms obj w0 mid r Ho H0 Hno Hedge), Hm. reflexivity.
Qed.
Lemma slay_block_rules_note ms obj w0 mid note r t : RV (RObj ms) obj -> ws w0 ->
  (forall u v, mid <> u ++ 42 :: 47 :: v) -> (forall u, mid <> u ++ [42]) -> trim_left mid = 45 :: note -> SLay r t ->
  SLay (47 :: 42 :: w0 ++ obj ++ mid ++ 42 :: 47 :: r) (KAnn (mk_ann ms (trim note)) :: t).
Proof.
  intros Ho H0 Hno Hedge Hm Hr. apply (sl_block _ _ r); [|rewrite !app_length; cbn [length]; lia|exact Hr].
  rewrite (block_rules_complete ms obj w0 mid r Ho H0 Hno Hedge), Hm. reflexivity.
Qed.
Lemma slay_line_rules ms obj w0 w1 tail r t : RV (RObj ms) obj -> ws w0 -> ws w1 -> comment_tail tail ->
  no_nl_b (w0 ++ obj ++ w1 ++ tail) -> line_end r -> SLay r t ->
  SLay (47 :: 47 :: (w0 ++ obj ++ w1 ++ tail) ++ r) (KAnn (mk_ann ms []) :: t).
Proof. intros Ho H0 H1 Ht Hnl Hr Hs. apply sl_ann_line; auto. apply ann_rules_complete; assumption. Qed.
Lemma slay_line_rules_note ms obj w0 w1 note tail r t : RV (RObj ms) obj -> ws w0 -> ws w1 ->
  Forall (fun c => c <> 35) note -> comment_tail tail ->
  no_nl_b (w0 ++ obj ++ w1 ++ 45 :: note ++ tail) -> line_end r -> SLay r t ->
  SLay (47 :: 47 :: (w0 ++ obj ++ w1 ++ 45 :: note ++ tail) ++ r) (KAnn (mk_ann ms (trim note)) :: t).
Proof. intros Ho H0 H1 Hn Ht Hnl Hr Hs. apply sl_ann_line; auto. apply ann_rules_note_complete; assumption. Qed.

Lemma ws_no_close w : ws w -> (forall u v, w <> u ++ 42 :: 47 :: v) /\ (forall u, w <> u ++ [42]).
Proof.
  intros Hw. split.
  - intros u v E. subst w. apply Forall_app in Hw. destruct Hw as [_ Hw]. inversion Hw as [|? ? Hc _]. discriminate.
  - intros u E. subst w. apply Forall_app in Hw. destruct Hw as [_ Hw]. inversion Hw as [|? ? Hc _]. discriminate.
Qed.
Theorem rules_line_or_block ms obj w0 w1 r1 r2 t : RV (RObj ms) obj -> ws w0 -> ws w1 ->
  no_nl_b (w0 ++ obj ++ w1 ++ []) -> line_end r1 -> SLay r1 t -> SLay r2 t ->
  exists s1 s2, SLay s1 (KAnn (mk_ann ms []) :: t) /\ SLay s2 (KAnn (mk_ann ms []) :: t) /\
                s1 = 47 :: 47 :: (w0 ++ obj ++ w1 ++ []) ++ r1 /\ s2 = 47 :: 42 :: w0 ++ obj ++ w1 ++ 42 :: 47 :: r2.
Proof.
  intros Ho H0 H1 Hnl Hr1 Hs1 Hs2. eexists; eexists. split; [|split; [|split; reflexivity]].
  - apply (slay_line_rules ms obj w0 w1 [] r1 t Ho H0 H1 (or_introl eq_refl) Hnl Hr1 Hs1).
  - destruct (ws_no_close w1 H1) as [Hno Hedge].
    assert (Hm : trim_left w1 = []) by (rewrite <- (app_nil_r w1); rewrite (trim_left_ws w1 [] H1); reflexivity).
    exact (slay_block_rules ms obj w0 w1 r2 t Ho H0 Hno Hedge Hm Hs2).
Qed.
