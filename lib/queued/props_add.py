import re
p='/verif/coq/Properties/C01.v'; s=open(p).read()
s=s.replace("Proofs.NumberMain Proofs.RuleProofs.","Proofs.NumberMain Proofs.RuleProofs Proofs.LeavesComplete.")
old="""Print Assumptions C01_or.
Print Assumptions C01_alternatives."""
new="""Print Assumptions C01_or.
Print Assumptions C01_alternatives.
(* ... and the list holds ALL of them once the fuel covers the walk (every type is expanded once; the result of the
   depth-first walk is closed under "is an alternative of"), which the fuel the model runs with does *)
Theorem C01_alternatives_exact : forall d fuel alts own lo, length alts + weight d [] < fuel ->
  (In lo (fst (leaves fuel d alts own [])) <-> AltLeaf d alts own lo).
Proof. exact leaves_exact. Qed.
Print Assumptions C01_alternatives_exact.
Theorem C01_fuel_enough : forall d root,
  (forall alts, snd root = VRefs alts -> length alts + weight d [] < proj_fuel d root) /\\
  (forall t ex alts, In (t, (ex, VRefs alts)) d -> length alts + weight d [] < proj_fuel d root).
Proof. exact proj_fuel_enough. Qed.
Print Assumptions C01_fuel_enough."""
assert old in s; s=s.replace(old,new,1); open(p,'w').write(s)

p='/verif/coq/Properties/C14.v'; s=open(p).read()
s=s.replace("Model.SchemaText Proofs.SchemaTextProofs.","Model.SchemaText Proofs.SchemaTextProofs Proofs.AnnotationProofs.")
s=s.rstrip('\n')+"""

(* ---- the inside of an annotation: RV rv s - the text s is a writing of the rule value rv (bare or quoted rule names,
   scalars, @names, lists, rule-sets, any blanks between the tokens).  Every writing is read back ... *)
Theorem C14_rule_object : forall v s, RV v s -> forall r f, vterm r \\/ (exists ms, v = RObj ms) -> (2 * length s <= f)%nat ->
  prval f (s ++ r) = Some (v, r).
Proof. exact (proj1 prval_complete). Qed.
Print Assumptions C14_rule_object.
(* ... and so is the annotation around it: rule object, optional "- note", optional "# comment" on the line; or in a
   block, up to the closing mark (a closing mark inside a string of the rule object does not close it) *)
Theorem C14_annotation_rules : forall ms obj w0 w1 tail, RV (RObj ms) obj -> ws w0 -> ws w1 -> comment_tail tail ->
  parse_ann (w0 ++ obj ++ w1 ++ tail) = Some (mk_ann ms []).
Proof. exact ann_rules_complete. Qed.
Theorem C14_annotation_rules_note : forall ms obj w0 w1 note tail, RV (RObj ms) obj -> ws w0 -> ws w1 ->
  Forall (fun c => c <> 35) note -> comment_tail tail ->
  parse_ann (w0 ++ obj ++ w1 ++ 45 :: note ++ tail) = Some (mk_ann ms (trim note)).
Proof. exact ann_rules_note_complete. Qed.
Theorem C14_block_rules : forall ms obj w0 mid after, RV (RObj ms) obj -> ws w0 ->
  (forall u v, mid <> u ++ 42 :: 47 :: v) -> (forall u, mid <> u ++ [42]) ->
  block_ann (w0 ++ obj ++ mid ++ 42 :: 47 :: after) =
  match trim_left mid with [] => Some (mk_ann ms [], after) | 45 :: note => Some (mk_ann ms (trim note), after) | _ => None end.
Proof. exact block_rules_complete. Qed.
Print Assumptions C14_annotation_rules.
Print Assumptions C14_annotation_rules_note.
Print Assumptions C14_block_rules.
(* the same annotation written on the line or in a block is the same token of the layout *)
Theorem C14_rules_line_or_block : forall ms obj w0 w1 r1 r2 t, RV (RObj ms) obj -> ws w0 -> ws w1 ->
  no_nl_b (w0 ++ obj ++ w1 ++ []) -> line_end r1 -> SLay r1 t -> SLay r2 t ->
  exists s1 s2, SLay s1 (KAnn (mk_ann ms []) :: t) /\\ SLay s2 (KAnn (mk_ann ms []) :: t) /\\
                s1 = 47 :: 47 :: (w0 ++ obj ++ w1 ++ []) ++ r1 /\\ s2 = 47 :: 42 :: w0 ++ obj ++ w1 ++ 42 :: 47 :: r2.
Proof. exact rules_line_or_block. Qed.
Print Assumptions C14_rules_line_or_block.
"""
open(p,'w').write(s)
print('props added')
p='/verif/coq/Properties/C02.v'; s=open(p).read()
if 'C02_schema_lex_total' not in s:
    # add import
    m=re.search(r'^From JS Require Import [^\n]*(\n  [^\n]*)*\.', s, re.M) if False else None
    s=s.replace("Import ListNotations.","From JS Require Import Model.SchemaText Proofs.SchemaLexTotal.\nImport ListNotations.",1)
    s=s.rstrip('\n')+"""

(* the schema lexer model (Model/SchemaText.v: blanks, punctuation, scalars, references, comments, inline and block
   annotations with their rule objects): with fuel above the length of the text it returns tokens or error 301 / 303 *)
Theorem C02_schema_lex_total : forall f s, (length s < f)%nat -> lex_res_ok (slex f s).
Proof. exact slex_total. Qed.
Print Assumptions C02_schema_lex_total.
"""
    open(p,'w').write(s)
print('C02 added')
