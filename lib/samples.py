"""Hand-written valid inputs for the four entry points (used by several properties for truncation / mutation /
layout transformations). Newlines are LF here; callers re-encode."""

SCHEMAS = [
    '{}', '[]', '12', '"abc"', 'true', 'null', '-0.5',
    '{"a": 1}', '[1, 2, 3]', '{"a": {"b": [1, "x", null]}}',
    '{\n  "id": 1, // {min: 0}\n  "name": "Tom" // {minLength: 1, maxLength: 10} - the name\n}',
    '{\n  "a": 1.5, // {precision: 1}\n  "b": "x@y.org", // {type: "email"}\n  "c": [ // {minItems: 1}\n    1,\n    2\n  ]\n}',
    '42 // {min: 1, max: 100}',
    '"abc" /* {regex: "^[a-c]+$"} - a note */',
    '{\n  "k": "v" /* {\n      minLength: 1,\n      maxLength: 3\n  } */\n}',
    '[\n  1, // {type: "integer"}\n  "a" // {or: ["string", "integer"]}\n]',
    '{ # a comment\n  "a": 1 # trailing\n}',
    '{\n###\n block\n###\n  "a": 1\n}',
    '"x" // {enum: ["x", "y", 1]}',
    '1 // {enum: [1, 2, 3]} - pick',
    '{\n  "a": 1 // {optional: true}\n}',
    '"2021-01-01" // {type: "date"}',
    '{ // {additionalProperties: true}\n  "a": 1\n}',
    '{\n  "a": null // {nullable: true, type: "string"}\n}',
    '5 // {const: true}',
    '[ // {maxItems: 0}\n]',
    '{\n  "a": 1, // {or: [{type: "integer", min: 0}, {type: "string"}]}\n  "b": 2.0 // {type: "decimal", precision: 2}\n}',
    '"a" // note only',
    '{"a": "\\u00e9\\n\\"q\\""}',
    '  \n {"a":1}  \n ',
]
# schemas that need user types (used with AddType)
TYPED_SCHEMAS = [
    ('@t', {'@t': '{"x": 1}'}),
    ('{"a": @t}', {'@t': '12'}),
    ('{\n  "a": 1 // {type: "@t"}\n}', {'@t': '5 // {min: 1}'}),
    ('@a | @b', {'@a': '1', '@b': '"s"'}),
    ('{\n  @k: 1\n}', {'@k': '"key" // {regex: "k.*"}'}),
    ('{ // {allOf: "@base"}\n  "own": 1\n}', {'@base': '{"inherited": "x"}'}),
    ('[\n  @t\n]', {'@t': '{"r": [1]}'}),
    ('{ // {additionalProperties: "@t"}\n}', {'@t': 'true'}),
]
ENUMS = [
    '[1, 2, 3]', '["a", "b"]', '[]', '[\n  "x", // first\n  "y" // second\n]', '[1, "1", 1.5, true, null]',
    '[ /* c */ 1 ]', '[\n  // only comment\n  1\n]', '["a.b", "c"]', ' [ 1 ] ', '[-1, 0.10]',
]
REGEXES = ['/a/', '/[a-z]+\\d/', '/a\\/b/', '//', '/x/ trailing', '/(ab|c)*/']
JSONS = ['{}', '[]', '1', '"s"', 'true', '{"a": [1, 2, {"b": null}], "c": "\\u0041"}', '[1.5e3, -0, "x\\n"]', ' \n[ ]\n ']


def encodings(text):
    """LF, CRLF, CR variants of an LF text"""
    return [('lf', text), ('crlf', text.replace('\n', '\r\n')), ('cr', text.replace('\n', '\r'))]
