#!/usr/bin/env python3
"""Runs the repository's baseline suite (guard off) and compares with /root/.vp/BASELINE.json.
usage: baseline.py [repo_dir]   exit 0 iff every stable_pass test passes."""
import json, os, subprocess, sys
repo = sys.argv[1] if len(sys.argv) > 1 else '/repo'
env = dict(os.environ, GOFLAGS='-mod=mod', GOPROXY='off', GOSUMDB='off', GOTOOLCHAIN='local')
p = subprocess.run(['go', 'test', '-json', '-vet=off', '-count=1', '-timeout', '25m', './...'],
                   cwd=repo, env=env, stdout=subprocess.PIPE, stderr=subprocess.DEVNULL, text=True)
passed = set()
for line in p.stdout.splitlines():
    try:
        e = json.loads(line)
    except ValueError:
        continue
    if e.get('Action') == 'pass' and e.get('Test'):
        passed.add(e['Package'] + '::' + e['Test'])
base = set(json.load(open('/root/.vp/BASELINE.json'))['stable_pass'])
missing = sorted(base - passed)
print('baseline stable_pass=%d passed_now=%d missing=%d' % (len(base), len(passed), len(missing)))
for m in missing[:20]:
    print('  MISSING', m)
sys.exit(1 if missing else 0)
