#!/usr/bin/env python3-vt
"""Independent judge for C08: is the instance valid against the OpenAPI 3.0 Schema Object?
stdin: one JSON object per line {"schema": text, "components": {name: text}, "instances": [text, ...]}
stdout: one line per input: JSON {"wellformed": bool|str, "valid": [true|false|str, ...]}
Numbers are read exactly (int / Decimal); `nullable` is the OpenAPI 3.0 extension; formats are not enforced."""
import sys, json
from decimal import Decimal
import decimal
# exact arithmetic: 10^-323 against 20-digit integers needs room (the default context has 28 digits)
decimal.getcontext().prec = 2000
decimal.getcontext().Emax = 999999
decimal.getcontext().Emin = -999999
import jsonschema
from jsonschema import Draft4Validator

ALLOWED = {'type', 'example', 'minimum', 'maximum', 'exclusiveMinimum', 'exclusiveMaximum', 'multipleOf', 'minLength', 'maxLength', 'pattern', 'enum', 'nullable',
           'anyOf', 'allOf', 'oneOf', 'not', 'items', 'minItems', 'maxItems', 'properties', 'required', 'additionalProperties', 'format', '$ref', 'description', 'title', 'default'}


def load(text):
    return json.loads(text, parse_float=Decimal)


def wellformed(s, path='#'):
    """structural conditions of an OpenAPI 3.0 Schema Object (the subset the converter may emit)"""
    if not isinstance(s, dict):
        return '%s: not an object' % path
    for k in s:
        if k not in ALLOWED:
            return '%s: unknown keyword %s' % (path, k)
    if '$ref' in s and len(s) != 1:
        return '%s: $ref with siblings' % path
    if 'type' in s and s['type'] not in ('integer', 'number', 'string', 'boolean', 'array', 'object'):
        return '%s: type %r' % (path, s['type'])
    for k in ('minimum', 'maximum', 'multipleOf'):
        if k in s and (isinstance(s[k], bool) or not isinstance(s[k], (int, Decimal))):
            return '%s: %s is not a number' % (path, k)
    for k in ('exclusiveMinimum', 'exclusiveMaximum', 'nullable'):
        if k in s and not isinstance(s[k], bool):
            return '%s: %s is not a boolean' % (path, k)
    for k in ('minLength', 'maxLength', 'minItems', 'maxItems'):
        if k in s and (isinstance(s[k], bool) or not isinstance(s[k], int) or s[k] < 0):
            return '%s: %s is not a non-negative integer' % (path, k)
    if 'multipleOf' in s and s['multipleOf'] <= 0:
        return '%s: multipleOf <= 0' % path
    if 'enum' in s and (not isinstance(s['enum'], list) or not s['enum']):
        return '%s: enum is not a non-empty array' % path
    if 'required' in s and (not isinstance(s['required'], list) or not s['required'] or any(not isinstance(x, str) for x in s['required'])):
        return '%s: required' % path
    if 'type' in s and s['type'] == 'array' and 'items' not in s:
        return '%s: array without items' % path
    for k in ('anyOf', 'allOf', 'oneOf'):
        if k in s:
            if not isinstance(s[k], list) or not s[k]:
                return '%s: %s is not a non-empty array' % (path, k)
            for i, x in enumerate(s[k]):
                r = wellformed(x, '%s/%s/%d' % (path, k, i))
                if r:
                    return r
    if 'items' in s:
        r = wellformed(s['items'], path + '/items')
        if r:
            return r
    if 'properties' in s:
        if not isinstance(s['properties'], dict):
            return '%s: properties' % path
        for k, x in s['properties'].items():
            r = wellformed(x, '%s/properties/%s' % (path, k))
            if r:
                return r
    if 'additionalProperties' in s and not isinstance(s['additionalProperties'], bool):
        r = wellformed(s['additionalProperties'], path + '/additionalProperties')
        if r:
            return r
    return None


def lower(s):
    """OpenAPI 3.0 -> draft-04: nullable"""
    if isinstance(s, list):
        return [lower(x) for x in s]
    if not isinstance(s, dict):
        return s
    out = {}
    for k, v in s.items():
        if k in ('properties',):
            out[k] = {kk: lower(vv) for kk, vv in v.items()}
        elif k in ('items', 'additionalProperties', 'not', 'anyOf', 'allOf', 'oneOf'):
            out[k] = lower(v)
        elif k in ('example', 'nullable', 'format'):
            continue
        else:
            out[k] = v
    if s.get('nullable') is True:
        return {'anyOf': [{'enum': [None]}, out]}
    return out


for line in sys.stdin:
    line = line.strip()
    if not line:
        continue
    q = json.loads(line)
    res = {'wellformed': True, 'valid': []}
    try:
        schema = load(q['schema'])
        comps = {k: load(v) for k, v in q.get('components', {}).items()}
    except Exception as e:
        print(json.dumps({'wellformed': 'not JSON: %s' % e, 'valid': []})); continue
    w = wellformed(schema)
    for k, c in comps.items():
        w = w or wellformed(c, '#/components/schemas/' + k)
    if w:
        res['wellformed'] = w
    doc = {'$ref': '#/x/root', 'x': {'root': lower(schema)}, 'components': {'schemas': {k: lower(c) for k, c in comps.items()}}}
    try:
        v = Draft4Validator(doc)
        for inst in q['instances']:
            try:
                i = load(inst)
            except Exception as e:
                res['valid'].append('not JSON: %s' % e); continue
            errs = sorted(v.iter_errors(i), key=lambda e: list(e.absolute_path))
            res['valid'].append(True if not errs else 'at /%s: %s' % ('/'.join(str(p) for p in errs[0].absolute_path), errs[0].message[:120]))
    except Exception as e:
        res['valid'] = ['validator error: %r' % e] * len(q['instances'])
    print(json.dumps(res))
    sys.stdout.flush()
