"""Reference judgements for the built-in string formats (C01), written from their documented meaning, independent of the library:
uuid (the spellings github.com/google/uuid reads: canonical, urn:uuid: prefix, braces, 32 hex digits), date (YYYY-MM-DD of the
calendar), datetime (RFC 3339), email (a single addr-spec), uri (an absolute URI or an absolute path).  valid(fmt, s) -> True /
False; the generators below give texts that are clearly on one side."""
import re, datetime

HEX = set('0123456789abcdefABCDEF')


def _hexpairs(s):
    return len(s) % 2 == 0 and all(c in HEX for c in s)


def uuid_ok(s):
    if len(s) == 45:
        if s[:9].lower() != 'urn:uuid:':
            return False
        s = s[9:]
    elif len(s) == 38:
        if s[0] != '{' or s[37] != '}':
            return False
        s = s[1:37]
    elif len(s) == 32:
        return _hexpairs(s)
    elif len(s) != 36:
        return False
    if not (s[8] == s[13] == s[18] == s[23] == '-'):
        return False
    return all(_hexpairs(p) for p in (s[0:8], s[9:13], s[14:18], s[19:23], s[24:36]))


def date_ok(s):
    m = re.fullmatch(r'(\d{4})-(\d{2})-(\d{2})', s)
    if not m:
        return False
    y, mo, d = map(int, m.groups())
    if y == 0:
        y = 2000            # year 0000 is a leap year of the proleptic calendar, python has no year 0
    try:
        datetime.date(y, mo, d)
        return True
    except ValueError:
        return False


def datetime_ok(s):
    m = re.fullmatch(r'(\d{4}-\d{2}-\d{2})T(\d{2}):(\d{2}):(\d{2})(\.\d+)?(Z|[+-]\d{2}:\d{2})', s)
    if not m or not date_ok(m.group(1)):
        return False
    h, mi, sec = int(m.group(2)), int(m.group(3)), int(m.group(4))
    if h > 23 or mi > 59 or sec > 59:
        return False
    z = m.group(6)
    return z == 'Z' or (int(z[1:3]) <= 23 and int(z[4:6]) <= 59)


UUIDS = ['550e8400-e29b-41d4-a716-446655440000', '550E8400-E29B-41D4-A716-446655440000', 'urn:uuid:550e8400-e29b-41d4-a716-446655440000',
         'URN:UUID:550e8400-e29b-41d4-a716-446655440000', '{550e8400-e29b-41d4-a716-446655440000}', '550e8400e29b41d4a716446655440000',
         '00000000-0000-0000-0000-000000000000',
         '', 'x', '550e8400-e29b-41d4-a716-44665544000', '550e8400-e29b-41d4-a716-4466554400000', '550e8400-e29b-41d4-a716-44665544000g',
         '550e8400_e29b-41d4-a716-446655440000', '550e8400-e29b_41d4-a716-446655440000', '550e8400-e29b-41d4_a716-446655440000', '550e8400-e29b-41d4-a716_446655440000',
         'g50e8400-e29b-41d4-a716-446655440000', '550e8400-e29b-41d4-a716-44665544000-', 'urn:uuix:550e8400-e29b-41d4-a716-446655440000',
         '[550e8400-e29b-41d4-a716-446655440000]', '{550e8400-e29b-41d4-a716-446655440000]', '550e8400e29b41d4a71644665544000g', '550e8400e29b41d4a7164466554400',
         '550e8400-e29b-41d4-a716-4466 5440000', '-50e8400-e29b-41d4-a716-446655440000']
DATES = ['2021-01-02', '2020-02-29', '2000-02-29', '1999-12-31', '9999-12-31', '0001-01-01',
         '', '2021-1-02', '2021-01-2', '21-01-02', '2021-13-01', '2021-00-10', '2021-01-32', '2021-01-00', '2021-02-29', '1900-02-29', '2021-04-31', '2021/01/02',
         '2021-01-02 ', ' 2021-01-02', '2021-01-02T00:00:00Z', '20210102', '2021-01-0a', 'yyyy-mm-dd']
DATETIMES = ['2021-01-02T07:23:12+03:00', '2021-01-02T07:23:12Z', '2021-01-02T07:23:12.5Z', '2021-01-02T07:23:12.123456789-11:30', '2020-02-29T23:59:59+00:00',
             '', '2021-01-02', '2021-01-02 07:23:12Z', '2021-01-02T07:23:12', '2021-01-02T24:00:00Z', '2021-01-02T07:60:12Z', '2021-01-02T07:23:60Z',
             '2021-13-02T07:23:12Z', '2021-02-30T07:23:12Z', '2021-01-02T07:23:12+3:00', '2021-01-02T7:23:12Z', '2021-01-02T7:23:12+03:00', '2021-01-02T07:23Z', '2021-01-02T07:23:12.Z',
             '2021-01-02T07:23:12+0300', '2021-01-02T07:23:12 +03:00', 'T07:23:12Z']
# email: a single addr-spec local@domain; clearly valid and clearly invalid texts only
EMAILS_OK = ['a@b.c', 'first.last@sub.example.org', 'x+tag@y.io', 'USER_1@host-name.com', 'a@b']
EMAILS_BAD = ['', 'abc', 'a@', '@b.c', 'a b@c.d', ' a@b.c', 'a@b.c ', '<a@b.c>', 'a@@b.c', 'Name <a@b.c>', 'a@b.c, d@e.f', 'a@b..c', '.a@b.c', 'a.@b.c', 'a@b c']
# uri: an absolute URI (scheme:...) or an absolute path
URIS_OK = ['http://a.b/c', 'https://x.y', 'https://x.y:8080/p?q=1#f', '/path', '/', 'urn:isbn:1', 'mailto:a@b.c', 'ftp://u:p@h/x']
URIS_BAD = ['', 'abc', 'a/b', 'http://a b', '://x', 'http://%zz', '1http://x', ' http://x.y', '//x.y/p' if False else 'x y', '?q', '#f']


def cases():
    """(format name, text, valid)"""
    out = []
    out += [('uuid', s, uuid_ok(s)) for s in UUIDS]
    out += [('date', s, date_ok(s)) for s in DATES]
    out += [('datetime', s, datetime_ok(s)) for s in DATETIMES]
    out += [('email', s, True) for s in EMAILS_OK] + [('email', s, False) for s in EMAILS_BAD]
    out += [('uri', s, True) for s in URIS_OK] + [('uri', s, False) for s in URIS_BAD]
    return out
