import re, json
BLANK = b' \t\r\n'
NL = b'\r\n'
class Rej(Exception): pass

def parse(s):
    """reference: returns list of (literal bytes | None, comment bytes | None) entries, raises Rej"""
    i = 0; n = len(s)
    vals = []   # [literal, comment]
    state = {'collect': False}
    def skip_ws_ann(i):
        # blanks, newlines, annotations
        while i < n:
            c = s[i]
            if c in b' \t':
                i += 1
            elif c in NL:
                state['collect'] = False
                i += 1
            elif c == 0x2f:
                i = annotation(i)
            else:
                break
        return i
    def annotation(i):
        if i + 1 >= n: raise Rej('eof after slash')
        if s[i+1] == 0x2f:
            j = i + 2
            while j < n and s[j] in b' \t': j += 1
            if j >= n:
                return j   # `//` then EOF
            if s[j] in NL:
                state['collect'] = False
                return j + 1   # an empty annotation: no entry
            k = j
            while k < n and s[k] not in NL: k += 1
            comment(s[j:k])
            if k < n:
                state['collect'] = False
                k += 1
            return k
        if s[i+1] == 0x2a:
            j = i + 2
            while j < n and s[j] in BLANK:
                j += 1
            if j >= n: raise Rej('unterminated block comment')
            k = j
            while True:
                if k >= n:
                    raise Rej('unterminated block comment')
                if s[k] == 0x2a and k + 1 < n and s[k+1] == 0x2f:
                    comment(s[j:k]); return k + 2
                k += 1
        raise Rej('after slash')
    def comment(b):
        t = b.strip(b' \t\r\n')
        if state['collect']:
            vals[-1][1] = t
        else:
            vals.append([None, t])
    def scalar(i):
        m = re.compile(rb'"(?:[^"\\\x00-\x1f]|\\["\\/bfnrt]|\\u[0-9a-fA-F]{4})*"|-?(?:0|[1-9][0-9]*)(?:\.[0-9]+)?|true|false|null').match(s, i)
        if not m: raise Rej('scalar expected')
        j = m.end()
        if j < n and s[j] in b'eE' and s[i] in b'-0123456789': raise Rej('exponent')
        return j
    while i < n and s[i] in BLANK: i += 1
    if i >= n or s[i] != 0x5b: raise Rej('array expected')
    i += 1
    i = skip_ws_ann(i)
    if i < n and s[i] == 0x5d:
        i += 1
    else:
        while True:
            j = scalar(i)
            lit = s[i:j]
            vals.append([lit, None]); state['collect'] = True
            i = skip_ws_ann(j)
            if i >= n: raise Rej('eof')
            if s[i] == 0x2c:
                i = skip_ws_ann(i + 1)
                if i >= n: raise Rej('eof')
                continue
            if s[i] == 0x5d:
                i += 1; break
            raise Rej('after item')
    i = skip_ws_ann(i)
    if i < n: raise Rej('trailing')
    # duplicates
    seen = set()
    for lit, c in vals:
        if lit is None: continue
        if lit[:1] == b'"':
            # a lone surrogate escape denotes no character: RFC 8259 leaves it open; like the code, read it as U+FFFD
            try: k = ('s', re.sub('[\ud800-\udfff]', '\ufffd', json.loads(lit.decode('utf-8', 'replace'))))
            except Exception: k = ('s', lit)
        else:
            k = ('l', lit)
        if k in seen: raise Rej('dup')
        seen.add(k)
    return vals
