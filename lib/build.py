#!/usr/bin/env python3
"""setup: builds the Coq development (full .vo), the extracted model and the Go harness."""
import os, sys
sys.path.insert(0, os.path.dirname(os.path.abspath(__file__)))
import vf


def setup():
    ok, out = vf.build_harness()
    print(out[-2000:])
    if not ok:
        return 1
    gok, glog = vf.regenerate_tables(ALL_TABLES)
    if not gok:
        print(glog[-2000:]); return 1
    ok, out = vf.coq_make()
    print(out[-3000:])
    if not ok:
        return 1
    ok, out = vf.build_model(force=True)
    print(out[-2000:])
    return 0 if ok else 1


ALL_TABLES = ["TypeTables", "ErrFormats", "PoolSites", "NondetSites"]

if __name__ == '__main__':
    sys.exit(setup() if sys.argv[1:] == ['setup'] else 2)
