#!/usr/bin/env python3
"""Apply a seeded change from /verif/seeded/<name>/patch.diff to /repo, run the named check, restore /repo.
Usage: lib/seedtest.py <seed-name> [--tier quick|thorough]   (seed-name like C06-1; the property is the part before '-')
Never commits anything to /repo; refuses to run when /repo has local modifications."""
import subprocess, sys, os, json
ROOT = os.path.dirname(os.path.dirname(os.path.abspath(__file__)))
REPO = os.environ.get('VERIF_REPO', '/repo')   # a scratch clone may stand in for /repo (with a scratch copy of /verif)
def main():
    name = sys.argv[1]; extra = sys.argv[2:]
    prop = name.split('-')[0]
    d = os.path.join(ROOT, 'seeded', name)
    st = subprocess.run(['git', '-C', REPO, 'status', '--porcelain'], capture_output=True, text=True).stdout.strip()
    if st:
        print('refusing: /repo has local modifications:\n' + st); return 2
    subprocess.run(['git', '-C', REPO, 'apply', os.path.join(d, 'patch.diff')], check=True)
    try:
        r = subprocess.run([os.path.join(ROOT, 'check'), prop] + extra, capture_output=True, text=True)
        out = r.stdout + r.stderr
        lines = out.strip().splitlines()
        print('\n'.join(l[:300] for l in lines[-12:]))
        print('exit', r.returncode)
        viol = [l for l in lines if l.startswith('VIOLATION')]
        return 0 if (r.returncode == 1 and viol) else 1
    finally:
        subprocess.run(['git', '-C', REPO, 'checkout', '--', '.'], check=True)
        subprocess.run(['git', '-C', REPO, 'clean', '-fdq'], check=True)
if __name__ == '__main__':
    sys.exit(main())
