"""Framework shared by all property checks (python3 stdlib only).

A property module (lib/props/cXX.py) defines a class with:
  id, level, design_ref, theorems_file ('Properties/CXX.v'), gen_tables (list of gotables names)
  cases(tier, rng)            -> list of Case
  oracle(case, impl_out)      -> None if the property holds on this case, else a short reason
  shrink_candidates(case)     -> iterable of smaller Case (optional)
  describe()                  -> dict(rule=..., trusted=[...], assumptions=[...])
and the framework does the rest: regenerate Gen/*.v, re-check the Coq cone, build harness,
run model and implementation on the same cases, compare, evaluate the oracle, search for a
failing input when proof or tie breaks, known findings, replay files, evidence.
"""
import hashlib, json, os, random, re, subprocess, sys, time

ROOT = os.path.dirname(os.path.dirname(os.path.abspath(__file__)))
COQ = os.path.join(ROOT, 'coq')
OCAML = os.path.join(ROOT, 'ocaml')
HARNESS = os.path.join(ROOT, 'harness')
REPO = os.environ.get('VERIF_REPO', '/repo')
BUILD = os.path.join(ROOT, 'build')

GOENV = dict(os.environ, GOFLAGS='-mod=mod', GOPROXY='off', GOSUMDB='off', GOTOOLCHAIN='local',
             CGO_ENABLED=os.environ.get('CGO_ENABLED', '0'))

FORBIDDEN = re.compile(r'\b(Admitted|admit|Axiom|Axioms|Parameter|Parameters|Conjecture|Conjectures|'
                       r'Admit Obligations|Unset Guard Checking|Unset Positivity Checking|'
                       r'Unset Universe Checking|bypass_check|native_compute)\b|'
                       r'-type-in-type|-impredicative-set')


class Case:
    """One case: the wire line given to model and implementation, and a class label for the histogram."""
    __slots__ = ('line', 'klass', 'meta')

    def __init__(self, line, klass='', meta=None):
        self.line, self.klass, self.meta = line, klass, meta

    def __repr__(self):
        return 'Case(%r)' % self.line


def sh(cmd, cwd=None, env=None, timeout=None, inp=None):
    p = subprocess.run(cmd, cwd=cwd, env=env, input=inp, stdout=subprocess.PIPE, stderr=subprocess.STDOUT,
                       text=True, timeout=timeout, shell=isinstance(cmd, str))
    return p.returncode, p.stdout


def log(*a):
    print(*a, file=sys.stderr, flush=True)


# ------------------------------------------------------------------ builds

def scan_forbidden():
    bad = []
    for d, _, fs in os.walk(COQ):
        for f in fs:
            if f.endswith('.v'):
                p = os.path.join(d, f)
                txt = strip_comments(open(p).read())
                for m in FORBIDDEN.finditer(txt):
                    bad.append('%s: %s' % (os.path.relpath(p, ROOT), m.group(0)))
    return bad


def strip_comments(s):
    out, depth, i = [], 0, 0
    while i < len(s):
        if s.startswith('(*', i):
            depth += 1; i += 2
        elif s.startswith('*)', i) and depth:
            depth -= 1; i += 2
        else:
            if not depth:
                out.append(s[i])
            i += 1
    return ''.join(out)


def coq_makefile():
    mk = os.path.join(COQ, 'Makefile')
    proj = os.path.join(COQ, '_CoqProject')
    if not os.path.exists(mk) or os.path.getmtime(mk) < os.path.getmtime(proj):
        rc, out = sh(['coq_makefile', '-f', '_CoqProject', '-o', 'Makefile'], cwd=COQ)
        if rc:
            raise RuntimeError('coq_makefile failed: ' + out)


def coq_make(targets=None, timeout=1500):
    """Full .vo build of the given targets (default: all). Returns (ok, log)."""
    coq_makefile()
    cmd = ['timeout', str(timeout), 'make', '-j16'] + (targets or [])
    rc, out = sh(cmd, cwd=COQ)
    return rc == 0, out


def coqc_file(rel, timeout=900):
    """(Re)compiles one file with coqc and returns (ok, stdout) - used to capture Print Assumptions."""
    cmd = ['timeout', str(timeout), 'coqc', '-Q', '.', 'JS', '-w',
           '-notation-overridden,-deprecated-hint-without-locality,-deprecated-instance-without-locality', rel]
    rc, out = sh(cmd, cwd=COQ)
    return rc == 0, out


def build_model(force=False):
    """Extracts the model to OCaml and builds ocaml/modelrun. Returns (ok, log)."""
    exe = os.path.join(OCAML, 'modelrun')
    vo = os.path.join(COQ, 'Extract', 'Dispatch.vo')
    if not force and os.path.exists(exe) and os.path.exists(vo) and \
            os.path.getmtime(exe) >= os.path.getmtime(vo) and \
            os.path.getmtime(exe) >= os.path.getmtime(os.path.join(OCAML, 'modelrun.ml')):
        return True, 'up to date'
    rc, out = sh(['timeout', '900', 'coqc', '-Q', '../coq', 'JS', 'extract.v'], cwd=OCAML)
    if rc:
        return False, out
    rc, out2 = sh(['timeout', '900', 'ocamlfind', 'ocamlopt', '-O3', '-w', '-a', 'model.mli', 'model.ml',
                   'modelrun.ml', '-o', 'modelrun'], cwd=OCAML)
    return rc == 0, out + out2


def build_harness(race=False):
    """go build -tags verif of the harness against /repo's working tree. Returns (ok, log)."""
    gosum = os.path.join(REPO, 'go.sum')
    if os.path.exists(gosum):
        open(os.path.join(HARNESS, 'go.sum'), 'w').write(open(gosum).read())
    set_replace()
    os.makedirs(os.path.join(HARNESS, 'bin'), exist_ok=True)
    outs = []
    ok = True
    for name in sorted(os.listdir(os.path.join(HARNESS, 'cmd'))):
        cmd = ['go', 'build', '-tags', 'verif', '-o', 'bin/' + name, './cmd/' + name]
        if name == 'implrun' and os.environ.get('GOCOVERDIR'):
            # coverage survey (lib/coverage.sh): which statements of the library the inputs of a check reach
            cmd[2:2] = ['-cover', '-coverpkg=github.com/jsightapi/jsight-schema-core/...,./...']
        rc, out = sh(cmd, cwd=HARNESS, env=GOENV, timeout=900)
        outs.append(out)
        ok = ok and rc == 0
    if race and ok:
        env = dict(GOENV, CGO_ENABLED='1')
        rc, out = sh(['go', 'build', '-race', '-tags', 'verif', '-o', 'bin/implrun-race', './cmd/implrun'],
                     cwd=HARNESS, env=env, timeout=900)
        outs.append(out)
        ok = ok and rc == 0
    return ok, ''.join(outs)


def set_replace():
    p = os.path.join(HARNESS, 'go.mod')
    s = open(p).read()
    s2 = re.sub(r'(replace github.com/jsightapi/jsight-schema-core => ).*', r'\g<1>' + REPO, s)
    if s2 != s:
        open(p, 'w').write(s2)


def run_tool(exe, lines, timeout=1200, env=None):
    """Feeds the case lines to a line-oriented tool; returns the list of result lines."""
    data = '\n'.join(lines) + '\n'
    p = subprocess.run([exe], input=data, stdout=subprocess.PIPE, stderr=subprocess.PIPE, text=True,
                       timeout=timeout, env=env)
    res = p.stdout.split('\n')
    if res and res[-1] == '':
        res.pop()
    if p.returncode != 0 or len(res) != len(lines):
        # the tool died: find out where by bisection-free approach: report as crash at first missing line
        res += ['TOOLCRASH rc=%d %s' % (p.returncode, p.stderr.strip().split('\n')[-1][:200] if p.stderr else '')] * \
               (len(lines) - len(res))
    return res


def run_impl(lines, **kw):
    return run_tool(os.path.join(HARNESS, 'bin', 'implrun'), lines, **kw)


def run_model(lines, **kw):
    return run_tool(os.path.join(OCAML, 'modelrun'), lines, **kw)


# ------------------------------------------------------------------ known findings

def load_known(pid):
    p = os.path.join(ROOT, 'known_findings.json')
    if not os.path.exists(p):
        return []
    return [k for k in json.load(open(p))['findings'] if k['property'] == pid and k.get('status') == 'open']


MATCHERS = {}   # name -> callable(case, reason), registered by property modules (known_matchers)


def match_known(known, case, reason):
    for k in known:
        if k.get('reason_regex') and not re.search(k['reason_regex'], reason):
            continue
        if 'matcher' in k:
            f = MATCHERS.get(k['matcher'])
            if f and f(case, reason):
                return k
        elif re.fullmatch(k['case_regex'], case.line):
            return k
    return None


# ------------------------------------------------------------------ the generic check

def tier_of(args_tier):
    return os.environ.get('VERIF_TIER') or args_tier or 'quick'


def seed_of():
    try:
        return int(os.environ.get('VERIF_SEED', '1'))
    except ValueError:
        return 1


def write_replay(pid, name, header, lines):
    d = os.path.join(ROOT, 'replays', pid)
    os.makedirs(d, exist_ok=True)
    p = os.path.join(d, name)
    with open(p, 'w') as f:
        f.write('# property=%s %s\n' % (pid, header))
        for l in lines:
            f.write(l + '\n')
    return p


def write_evidence(pid, ev):
    d = os.path.join(ROOT, 'evidence')
    os.makedirs(d, exist_ok=True)
    json.dump(ev, open(os.path.join(d, pid + '.json'), 'w'), indent=1, sort_keys=True)


def proof_stage(prop, notes):
    """Regenerates Gen tables, rebuilds the Coq cone, re-compiles the property file to capture
    Print Assumptions. Returns dict(ok, obligations, discharged, assumptions, errors)."""
    t0 = time.time()
    res = dict(ok=True, obligations=0, discharged=0, axioms=[], errors=[], theorems=[])
    bad = scan_forbidden()
    if bad:
        res['ok'] = False
        res['errors'].append('forbidden constructs: ' + '; '.join(bad[:5]))
    own = list(getattr(prop, 'gen_tables', []))
    gen_ok, gen_log = regenerate_tables(own)
    if not gen_ok:
        res['ok'] = False
        res['errors'].append('translator: ' + gen_log[-600:])
    # the other tables are regenerated as well, so that nothing generated from an earlier state of /repo stays behind
    # (Gen/TypeTables.v is part of the executable model); a failure there is not this property's obligation
    others = [t for t in ALL_TABLES if t not in own]
    ok_o, log_o = regenerate_tables(others)
    if not ok_o:
        notes.append('translator (tables of other properties): ' + log_o[-300:])
    thm_file = prop.theorems_file
    src = strip_comments(open(os.path.join(COQ, thm_file)).read())
    thms = re.findall(r'^\s*(?:Theorem|Corollary)\s+(\w+)', src, re.M)
    res['theorems'] = thms
    res['obligations'] = len(thms)
    # property files must contain nothing but statements closed by `exact`
    ok, out = coq_make([thm_file.replace('.v', '.vo')] + getattr(prop, 'extra_targets', []) +
                       ['Extract/Dispatch.vo'])
    if not ok:
        res['ok'] = False
        res['errors'].append('make: ' + tail_error(out))
    else:
        ok2, out2 = coqc_file(thm_file)
        if not ok2:
            res['ok'] = False
            res['errors'].append('coqc %s: %s' % (thm_file, tail_error(out2)))
        else:
            closed = len(re.findall(r'Closed under the global context', out2))
            axs = re.findall(r'^Axioms:\n((?:.+\n)+?)(?=\S|\Z)', out2, re.M)
            res['axioms'] = sorted(set(l.split(':')[0].strip() for blk in axs for l in blk.split('\n')
                                        if l and not l.startswith(' ') and ':' in l))
            res['closed'] = closed
            res['print_assumptions_blocks'] = closed + len(axs)
            res['discharged'] = len(thms)
    res['wall_s'] = round(time.time() - t0, 1)
    return res


def tail_error(out):
    lines = out.strip().split('\n')
    for i, l in enumerate(lines):
        if l.startswith('File '):
            return ' | '.join(lines[i:i + 6])[:900]
    return ' | '.join(lines[-6:])[:900]


ALL_TABLES = ['TypeTables', 'ErrFormats', 'PoolSites', 'NondetSites']


def regenerate_tables(names):
    if not names:
        return True, ''
    exe = os.path.join(HARNESS, 'bin', 'gotables')
    if not os.path.exists(exe):
        return False, 'gotables not built'
    rc, out = sh([exe, '-repo', REPO, '-out', os.path.join(COQ, 'Gen')] + names, cwd=HARNESS, env=GOENV, timeout=300)
    return rc == 0, out


def shrink(prop, case, fails):
    """Greedy shrinking: fails(list of Case) -> list of reasons/None (batch)."""
    if not hasattr(prop, 'shrink_candidates'):
        return case
    cur = case
    for _ in range(200):
        cands = list(prop.shrink_candidates(cur))
        if not cands:
            break
        verdicts = fails(cands)
        nxt = None
        for c, v in zip(cands, verdicts):
            if v:
                nxt = c
                break
        if nxt is None:
            break
        cur = nxt
    return cur


def run_check(prop, tier, replay=None):
    t0 = time.time()
    seed = seed_of()
    rng = random.Random(seed)
    pid = prop.id
    notes = []
    known = load_known(pid)
    MATCHERS.update(getattr(prop, 'known_matchers', {}))

    # 1. harness (also builds gotables used by the proof stage)
    hok, hlog = build_harness(race=getattr(prop, 'needs_race', False))
    if not hok:
        # the repository no longer builds with the harness: the tie cannot be evaluated
        rp = write_replay(pid, 'harness-build.txt', 'reason=harness-build-failed', hlog.split('\n')[-30:])
        write_evidence(pid, base_evidence(prop, tier, seed, t0, violations=1,
                                          extra=dict(explanation='harness build failed')))
        print('VIOLATION property=%s replay=%s no-failing-input-found' % (pid, rp))
        return 1

    # 2. proofs
    pr = proof_stage(prop, notes)
    mok, mlog = (True, '')
    if getattr(prop, 'uses_model', True):
        mok, mlog = build_model()
        if not mok:
            pr['ok'] = False
            pr['errors'].append('extraction/ocaml: ' + tail_error(mlog))

    # 3. cases
    if replay:
        cases = [Case(l.rstrip('\n'), 'replay') for l in open(replay) if l.strip() and not l.startswith('#')]
    else:
        cases = corpus_cases(pid) + prop.cases(tier, rng)
    lines = [c.line for c in cases]
    impl = prop.run_impl(lines) if hasattr(prop, 'run_impl') else run_impl(lines)
    if getattr(prop, 'uses_model', True) and mok:
        if hasattr(prop, 'model_lines'):
            # the model is asked a question derived from the implementation's answer (e.g. position -> line/column)
            ql = prop.model_lines(lines, impl)
            idx = [i for i, q in enumerate(ql) if q is not None]
            ans = run_model([ql[i] for i in idx]) if idx else []
            model = [None] * len(lines)
            for i, a in zip(idx, ans):
                model[i] = a
        else:
            model = run_model(lines)
    else:
        model = [None] * len(lines)
    if hasattr(prop, 'post_model'):
        model = prop.post_model(lines, model)

    # 4. compare + oracle
    mism, fails, knowns, tie_why = [], [], {}, {}
    for i, c in enumerate(cases):
        if model[i] is not None and prop.project(impl[i]) != (prop.project_model(model[i]) if hasattr(prop, 'project_model') else prop.project(model[i])):
            mism.append(i)
        why = prop.oracle(c, impl[i])
        if why and why.startswith('TIE:'):
            # the premise under which the property is explored no longer holds for this input (e.g. a schema the
            # statement presupposes to be accepted is refused): the tie is broken, the input does not refute the property
            if i not in mism:
                mism.append(i)
            tie_why[i] = why[4:]
        elif why:
            k = match_known(known, c, why)
            if k:
                knowns.setdefault(k['id'], (k, c, why))
            else:
                fails.append((i, why))
    extra_fail = prop.extra_checks(tier, rng, cases, impl) if hasattr(prop, 'extra_checks') else []
    for (c, why) in extra_fail:
        if why.startswith('TIE:'):
            cases.append(c); impl.append('(extra)'); model.append(None)
            mism.append(len(cases) - 1); tie_why[len(cases) - 1] = why[4:]
            continue
        k = match_known(known, c, why)
        if k:
            knowns.setdefault(k['id'], (k, c, why))
        else:
            cases.append(c); impl.append('(extra)'); model.append(None)
            fails.append((len(cases) - 1, why))

    hist = {}
    for c in cases:
        hist[c.klass] = hist.get(c.klass, 0) + 1
    distinct = len(set((c.line) for c in cases if prop.nontrivial(c)))

    ev = base_evidence(prop, tier, seed, t0)
    cov = ev['coverage']
    cov.update(dict(
        obligations=pr['obligations'], discharged=pr['discharged'] if pr['ok'] else 0,
        theorems=pr['theorems'], axioms=pr['axioms'],
        checker_cmd='make -C coq %s && coqc -Q . JS %s  (coq_makefile full .vo build; Print Assumptions captured)'
                    % (prop.theorems_file.replace('.v', '.vo'), prop.theorems_file),
        evaluations=len(cases), distinct_nontrivial=distinct,
        input_classes=hist,
        correspondence=dict(cases=len(cases), compared=sum(1 for m in model if m is not None), mismatches=len(mism)),
        oracle_failures=len(fails), known_findings_observed=sorted(knowns),
        samples=[dict(case=cases[i].line, impl=impl[i], model=model[i]) for i in sample_idx(len(cases), rng)],
        proof_errors=pr['errors'], proof_wall_s=pr.get('wall_s'),
        exhaustive=bool(getattr(prop, 'exhaustive_note', '')),
    ))
    if getattr(prop, 'exhaustive_note', ''):
        cov['exhaustive_scope'] = prop.exhaustive_note
    if hasattr(prop, 'more_evidence'):
        cov.update(prop.more_evidence())

    rc = 0
    if fails:
        # a concrete failing input exists: shrink the first one and report
        i, why = fails[0]

        def batch(cs):
            outs = prop.run_impl([c.line for c in cs]) if hasattr(prop, 'run_impl') else run_impl([c.line for c in cs])
            res = []
            for c, o in zip(cs, outs):
                w = prop.oracle(c, o)
                res.append(w if (w and not match_known(known, c, w)) else None)
            return res
        small = cases[i]
        if impl[i] != '(extra)':
            try:
                small = shrink(prop, cases[i], batch)
            except Exception as e:  # shrinking is best effort
                notes.append('shrink failed: %r' % e)
        name = 'fail-%s-%s.txt' % (tier, hashlib.sha1(small.line.encode()).hexdigest()[:10])
        rp = write_replay(pid, name, 'tier=%s seed=%d reason=%s' % (tier, seed, why.replace('\n', ' ')[:300]),
                          [small.line] + ([cases[i].line] if small.line != cases[i].line else []))
        print('VIOLATION property=%s replay=%s' % (pid, rp))
        show = int(os.environ.get('VERIF_SHOW', '5'))          # VERIF_SHOW=n: list more failing cases and mismatches (a debugging aid)
        for (j, w) in fails[:show]:
            log('  failing case: %s  => %s  [%s]' % (cases[j].line[:200], impl[j][:200], w[:200]))
        if show > 5:
            for j in mism[:show]:
                log('  mismatch: %s  impl %s  model %s' % (cases[j].line[:200], str(impl[j])[:200], str(model[j])[:200]))
        rc = 1
    elif not pr['ok'] or mism:
        what = []
        if not pr['ok']:
            what.append('proof obligation no longer checks: ' + ' ;; '.join(pr['errors']))
        if mism:
            what.append('correspondence model/implementation differs on %d of %d cases' % (len(mism), len(cases)))
        body = what + ['theorems: ' + ', '.join(pr['theorems'])]
        for i in mism[:20]:
            body += ['case: ' + cases[i].line, '  impl : ' + str(impl[i]), '  model: ' + str(model[i])] + \
                    (['  note : ' + tie_why[i]] if i in tie_why else [])
        rp = write_replay(pid, 'broken-%s.txt' % tier, 'tier=%s seed=%d reason=tie-or-proof-broken' % (tier, seed), body)
        print('VIOLATION property=%s replay=%s no-failing-input-found' % (pid, rp))
        rc = 1
    for kid in sorted(knowns):
        k, c, why = knowns[kid]
        print('KNOWN-FINDING: property=%s %s (observed on: %s)' % (pid, k['what'], c.line[:120]))
    ev['violations'] = rc
    ev['wall_s'] = round(time.time() - t0, 2)
    if replay is None or not os.path.exists(os.path.join(ROOT, 'evidence', pid + '.json')):
        write_evidence(pid, ev)
    if replay:
        for c, a, b in zip(cases, impl, model):
            print('case : %s\n impl : %s\n model: %s\n oracle: %s' % (c.line, a, b, prop.oracle(c, a) or 'property holds'))
    log('%s %s: %d cases, %d mismatches, %d failures, proofs %s, %.1fs' %
        (pid, tier, len(cases), len(mism), len(fails), 'ok' if pr['ok'] else 'BROKEN', time.time() - t0))
    return rc


def sample_idx(n, rng, k=6):
    if n == 0:
        return []
    idx = sorted(set([0, n - 1] + [rng.randrange(n) for _ in range(k)]))
    return idx[:k]


def corpus_cases(pid):
    d = os.path.join(ROOT, 'corpus', pid)
    out = []
    if os.path.isdir(d):
        for f in sorted(os.listdir(d)):
            for l in open(os.path.join(d, f)):
                if l.strip() and not l.startswith('#'):
                    out.append(Case(l.rstrip('\n'), 'corpus'))
    return out


def base_evidence(prop, tier, seed, t0, violations=0, extra=None):
    d = prop.describe()
    cov = dict(rule=d['rule'], trusted_base=d['trusted'], explanation=d.get('explanation', ''),
               evaluations=0, distinct_nontrivial=0, samples=[])
    if extra:
        cov.update(extra)
    return dict(property_id=prop.id, tier=tier, seed=seed, level=prop.level, coverage=cov,
                assumptions=d.get('assumptions', []), wall_s=round(time.time() - t0, 2), violations=violations)
