package main

import (
	"fmt"
	"go/ast"
	"go/importer"
	"go/parser"
	"go/token"
	"go/types"
	"io/fs"
	"path/filepath"
	"sort"
	"strings"
)

func init() { gens["NondetSites"] = nondetSites }

// nondetSites lists every `range` over a map-typed expression in non-test files (go/types, per package,
// dependencies resolved from source) and every use of the %p verb in a string literal.
// A site is identified by file, enclosing function and the ranged expression - not by line number, so that
// unrelated edits do not move it.
func nondetSites() (string, error) {
	fset := token.NewFileSet()
	pkgs := map[string][]*ast.File{} // dir -> files
	err := filepath.WalkDir(repo, func(p string, d fs.DirEntry, err error) error {
		if err != nil {
			return err
		}
		if d.IsDir() {
			n := d.Name()
			if n == ".git" || n == "testdata" || n == "test" || n == "docs" || n == "mocks" {
				return filepath.SkipDir
			}
			return nil
		}
		if !strings.HasSuffix(p, ".go") || strings.HasSuffix(p, "_test.go") {
			return nil
		}
		f, err := parser.ParseFile(fset, p, nil, 0)
		if err != nil {
			return err
		}
		if f.Name.Name == "main" {
			return nil
		}
		for _, cg := range f.Comments {
			_ = cg
		}
		dir := filepath.Dir(p)
		pkgs[dir] = append(pkgs[dir], f)
		return nil
	})
	if err != nil {
		return "", err
	}
	// every function declaration by the position of its name: a call is resolved to its callee through the type checker
	decls := map[string]*ast.FuncDecl{}
	for _, files := range pkgs {
		for _, f := range files {
			for _, d := range f.Decls {
				if fd, ok := d.(*ast.FuncDecl); ok {
					pos := fset.Position(fd.Name.Pos())
					decls[fmt.Sprintf("%s:%d", pos.Filename, pos.Line)] = fd
				}
			}
		}
	}
	imp := importer.ForCompiler(fset, "source", nil)
	var sites, pverbs []string
	var dirs []string
	for d := range pkgs {
		dirs = append(dirs, d)
	}
	sort.Strings(dirs)
	for _, dir := range dirs {
		files := pkgs[dir]
		// drop files excluded by build tags we do not set (verif hooks are add-only and contain no ranges of interest)
		var use []*ast.File
		for _, f := range files {
			tagged := false
			for _, cg := range f.Comments {
				if cg.Pos() < f.Package && strings.Contains(cg.Text(), "go:build verif") {
					tagged = true
				}
			}
			if !tagged {
				use = append(use, f)
			}
		}
		info := &types.Info{Types: map[ast.Expr]types.TypeAndValue{}, Selections: map[*ast.SelectorExpr]*types.Selection{}}
		conf := types.Config{Importer: imp, Error: func(error) {}}
		rel, _ := filepath.Rel(repo, dir)
		_, _ = conf.Check(rel, fset, use, info)
		for _, f := range use {
			fname, _ := filepath.Rel(repo, fset.Position(f.Pos()).Filename)
			for _, decl := range f.Decls {
				fd, ok := decl.(*ast.FuncDecl)
				if !ok || fd.Body == nil {
					continue
				}
				fn := fd.Name.Name
				if fd.Recv != nil && len(fd.Recv.List) == 1 {
					fn = typeName(fd.Recv.List[0].Type) + "." + fn
				}
				literals := mapLiterals(f, fd)
				following := map[*ast.RangeStmt]ast.Stmt{}
				if fd.Body != nil {
					for i, st := range fd.Body.List {
						if rs, ok := st.(*ast.RangeStmt); ok && i+1 < len(fd.Body.List) {
							following[rs] = fd.Body.List[i+1]
						}
					}
				}
				ast.Inspect(fd.Body, func(n ast.Node) bool {
					switch x := n.(type) {
					case *ast.BlockStmt:
						// remember what follows each range statement (collect-then-sort idiom)
						for i, st := range x.List {
							if rs, ok := st.(*ast.RangeStmt); ok && i+1 < len(x.List) {
								following[rs] = x.List[i+1]
							}
						}
					case *ast.RangeStmt:
						tv, ok := info.Types[x.X]
						if !ok || tv.Type == nil {
							sites = append(sites, fmt.Sprintf("%s|%s|UNTYPED:%s", fname, fn, exprText(x.X)))
							return true
						}
						if _, isMap := tv.Type.Underlying().(*types.Map); isMap {
							class := bodyClass(x, following[x], info)
							if strings.HasPrefix(class, "call:") && callCopiesEntry(x, info, fset, decls) {
								class = "copy-entries"
							}
							if inner := guardedByMissingKey(x); inner != nil {
								// `if _, ok := g[key]; !ok { <statement> }`: classified by the statement under the guard
								ic := bodyClass(inner, nil, info)
								if strings.HasPrefix(ic, "call:") && callCopiesEntry(inner, info, fset, decls) {
									ic = "copy-entries"
								}
								if ic == "copy-entries" {
									class = "copy-missing-entries"
								}
							}
							if class == "other" {
								// a loop that stops at the first key that matches: what it answers is a function of
								// the map only when at most one key can match; the keys are part of the site
								if keys, ok := literals[exprText(x.X)]; ok {
									class = "first-match:" + strings.Join(keys, ",")
								}
							}
							sites = append(sites, fmt.Sprintf("%s|%s|%s|%s", fname, fn, exprText(x.X), class))
						}
					case *ast.BasicLit:
						if x.Kind == token.STRING && strings.Contains(x.Value, "%p") {
							pverbs = append(pverbs, fmt.Sprintf("%s|%s", fname, fn))
						}
					}
					return true
				})
			}
		}
	}
	sort.Strings(sites)
	sort.Strings(pverbs)
	var b strings.Builder
	b.WriteString("From Coq Require Import String List.\nImport ListNotations.\nLocal Open Scope string_scope.\n\n")
	b.WriteString("(* every `range` over a map: file|function|ranged expression *)\n")
	fmt.Fprintf(&b, "Definition map_range_sites : list string := %s.\n\n", qlistLines(sites))
	b.WriteString("(* every string literal with the %p verb: file|function *)\n")
	fmt.Fprintf(&b, "Definition pointer_format_sites : list string := %s.\n", qlistLines(pverbs))
	return b.String(), nil
}

// bodyClass classifies the body of a map range syntactically:
//   collect-sorted   body is one append to a slice that the next statement sorts in its natural order
//   collect-sorted-by:<f>  ... sorts with another function (comparison supplied by the caller)
//   collect          body is one append (not followed by a sort)
//   delete           body is one delete(m, k)
//   mapset           body is one m[k] = v
//   call:<name>      body is one call statement
//   other
func bodyClass(rs *ast.RangeStmt, next ast.Stmt, info *types.Info) string {
	if len(rs.Body.List) != 1 {
		return "other"
	}
	switch st := rs.Body.List[0].(type) {
	case *ast.AssignStmt:
		if len(st.Lhs) == 1 && len(st.Rhs) == 1 {
			if ce, ok := st.Rhs[0].(*ast.CallExpr); ok {
				if id, ok := ce.Fun.(*ast.Ident); ok && id.Name == "append" && len(ce.Args) == 2 {
					// what is collected must be the key or the value itself: an expression with a call could depend on the order
					if !isRangeVar(rs, ce.Args[1]) {
						return "collect-expr"
					}
					if es, ok := next.(*ast.ExprStmt); ok {
						if c2, ok := es.X.(*ast.CallExpr); ok && strings.HasPrefix(exprText(c2.Fun), "sort.") &&
							len(c2.Args) >= 1 && exprText(c2.Args[0]) == exprText(st.Lhs[0]) {
							// only the natural (total, antisymmetric) orders make the sorted slice a function of
							// the key set; a caller-supplied comparison may tie distinct keys
							switch exprText(c2.Fun) {
							case "sort.Strings", "sort.Ints", "sort.Float64s":
								return "collect-sorted"
							}
							// a comparison given as a closure that only calls a named function is classified by
							// that function (its total-order proof is per function); anything else is "inline"
							cmp := "inline"
							if len(c2.Args) == 2 && naturalLess(c2.Args[0], c2.Args[1], info) {
								// sort.Slice(x, func(i, j int) bool { return x[i] < x[j] }) over strings or integers: the natural order
								return "collect-sorted"
							}
							if len(c2.Args) == 2 {
								if fl, ok := c2.Args[1].(*ast.FuncLit); ok && len(fl.Body.List) == 1 {
									if rs, ok := fl.Body.List[0].(*ast.ReturnStmt); ok && len(rs.Results) == 1 {
										if ce, ok := rs.Results[0].(*ast.CallExpr); ok {
											cmp = exprText(ce.Fun)
										}
									}
								}
							}
							return "collect-sorted-by:" + exprText(c2.Fun) + ":" + cmp
						}
					}
					return "collect"
				}
			}
			if ix, ok := st.Lhs[0].(*ast.IndexExpr); ok {
				// dst[key] = value with the loop's own key and value: distinct keys, nothing computed - the result is a
				// function of the ranged map wherever the loop stands; anything else needs an argument of its own
				if rs.Key != nil && exprText(ix.Index) == exprText(rs.Key) && isRangeVar(rs, ix.Index) && isRangeVar(rs, st.Rhs[0]) {
					return "copy-entries"
				}
				return "mapset"
			}
		}
	case *ast.ExprStmt:
		if ce, ok := st.X.(*ast.CallExpr); ok {
			if id, ok := ce.Fun.(*ast.Ident); ok && id.Name == "delete" && len(ce.Args) == 2 && isRangeVar(rs, ce.Args[1]) {
				return "delete"
			}
			return "call:" + exprText(ce.Fun)
		}
	}
	return "other"
}

// guardedByMissingKey: the loop's single statement is `if _, ok := g[key]; !ok { one statement }` (no else) where key is the
// loop's own key variable and the index expression g contains no call other than a method without arguments;
// returns the loop with the guarded statement as its body
func guardedByMissingKey(rs *ast.RangeStmt) *ast.RangeStmt {
	if len(rs.Body.List) != 1 || rs.Key == nil {
		return nil
	}
	is, ok := rs.Body.List[0].(*ast.IfStmt)
	if !ok || is.Else != nil || is.Init == nil || len(is.Body.List) != 1 {
		return nil
	}
	as, ok := is.Init.(*ast.AssignStmt)
	if !ok || as.Tok != token.DEFINE || len(as.Lhs) != 2 || len(as.Rhs) != 1 {
		return nil
	}
	blank, ok1 := as.Lhs[0].(*ast.Ident)
	okv, ok2 := as.Lhs[1].(*ast.Ident)
	ix, ok3 := as.Rhs[0].(*ast.IndexExpr)
	if !ok1 || !ok2 || !ok3 || blank.Name != "_" {
		return nil
	}
	if exprText(ix.Index) != exprText(rs.Key) || !isRangeVar(rs, ix.Index) {
		return nil
	}
	ue, ok := is.Cond.(*ast.UnaryExpr)
	if !ok || ue.Op != token.NOT {
		return nil
	}
	if id, ok := ue.X.(*ast.Ident); !ok || id.Name != okv.Name {
		return nil
	}
	// the looked-up map: an identifier, a field, or a getter call without arguments (TypesList())
	pure := true
	ast.Inspect(ix.X, func(n ast.Node) bool {
		if ce, ok := n.(*ast.CallExpr); ok && len(ce.Args) != 0 {
			pure = false
		}
		return true
	})
	if !pure {
		return nil
	}
	cp := *rs
	cp.Body = is.Body
	return &cp
}

// callCopiesEntry: the loop's single statement is a call m(key, value) with the loop's own variables, and the callee - found
// through the type checker - does nothing but `recv.field[firstParam] = secondParam`: the loop copies the entries into
// another map, as if the assignment stood there
func callCopiesEntry(rs *ast.RangeStmt, info *types.Info, fset *token.FileSet, decls map[string]*ast.FuncDecl) bool {
	es, ok := rs.Body.List[0].(*ast.ExprStmt)
	if !ok {
		return false
	}
	ce, ok := es.X.(*ast.CallExpr)
	if !ok || len(ce.Args) != 2 || rs.Key == nil || rs.Value == nil {
		return false
	}
	if exprText(ce.Args[0]) != exprText(rs.Key) || exprText(ce.Args[1]) != exprText(rs.Value) || !isRangeVar(rs, ce.Args[0]) || !isRangeVar(rs, ce.Args[1]) {
		return false
	}
	sel, ok := ce.Fun.(*ast.SelectorExpr)
	if !ok {
		return false
	}
	sn, ok := info.Selections[sel]
	if !ok || sn.Obj() == nil {
		return false
	}
	pos := fset.Position(sn.Obj().Pos())
	fd, ok := decls[fmt.Sprintf("%s:%d", pos.Filename, pos.Line)]
	if !ok || fd.Body == nil || len(fd.Body.List) != 1 || fd.Type.Params == nil {
		return false
	}
	var params []string
	for _, fl := range fd.Type.Params.List {
		for _, nm := range fl.Names {
			params = append(params, nm.Name)
		}
	}
	as, ok := fd.Body.List[0].(*ast.AssignStmt)
	if !ok || len(params) != 2 || len(as.Lhs) != 1 || len(as.Rhs) != 1 || as.Tok != token.ASSIGN {
		return false
	}
	ix, ok := as.Lhs[0].(*ast.IndexExpr)
	if !ok {
		return false
	}
	ki, ok1 := ix.Index.(*ast.Ident)
	vi, ok2 := as.Rhs[0].(*ast.Ident)
	return ok1 && ok2 && ki.Name == params[0] && vi.Name == params[1]
}

// naturalLess: cmp is `func(i, j int) bool { return x[i] < x[j] }` for the sorted slice x, and the elements are strings or
// integers (also through a type parameter constrained to them): `<` is a strict total order there, ties are equal keys
func naturalLess(x ast.Expr, cmp ast.Expr, info *types.Info) bool {
	fl, ok := cmp.(*ast.FuncLit)
	if !ok || len(fl.Body.List) != 1 || fl.Type.Params == nil {
		return false
	}
	var ps []string
	for _, f := range fl.Type.Params.List {
		for _, n := range f.Names {
			ps = append(ps, n.Name)
		}
	}
	rs, ok := fl.Body.List[0].(*ast.ReturnStmt)
	if !ok || len(rs.Results) != 1 || len(ps) != 2 {
		return false
	}
	be, ok := rs.Results[0].(*ast.BinaryExpr)
	if !ok || be.Op != token.LSS {
		return false
	}
	l, ok1 := be.X.(*ast.IndexExpr)
	r, ok2 := be.Y.(*ast.IndexExpr)
	if !ok1 || !ok2 || exprText(l.X) != exprText(x) || exprText(r.X) != exprText(x) || exprText(l.Index) != ps[0] || exprText(r.Index) != ps[1] {
		return false
	}
	tv, ok := info.Types[be.X]
	if !ok || tv.Type == nil {
		return false
	}
	switch t := tv.Type.(type) {
	case *types.TypeParam:
		c := t.Constraint().String()
		return c == "~string" || c == "interface{~string}" || c == "string"
	default:
		b, ok := tv.Type.Underlying().(*types.Basic)
		return ok && b.Info()&(types.IsString|types.IsInteger) != 0
	}
}

// isRangeVar: e is the key or the value variable of the range statement
func isRangeVar(rs *ast.RangeStmt, e ast.Expr) bool {
	id, ok := e.(*ast.Ident)
	if !ok || id.Name == "_" {
		return false
	}
	for _, v := range []ast.Expr{rs.Key, rs.Value} {
		if vi, ok := v.(*ast.Ident); ok && vi.Name == id.Name {
			return true
		}
	}
	return false
}

func qlistLines(ss []string) string {
	if len(ss) == 0 {
		return "[]"
	}
	q := make([]string, len(ss))
	for i, s := range ss {
		q[i] = "  " + qs(s)
	}
	return "[\n" + strings.Join(q, ";\n") + "\n]"
}

func typeName(e ast.Expr) string {
	switch x := e.(type) {
	case *ast.StarExpr:
		return typeName(x.X)
	case *ast.Ident:
		return x.Name
	case *ast.IndexExpr:
		return typeName(x.X)
	}
	return "?"
}

func exprText(e ast.Expr) string {
	switch x := e.(type) {
	case *ast.Ident:
		return x.Name
	case *ast.SelectorExpr:
		return exprText(x.X) + "." + x.Sel.Name
	case *ast.CallExpr:
		return exprText(x.Fun) + "()"
	case *ast.IndexExpr:
		return exprText(x.X) + "[]"
	case *ast.StarExpr:
		return "*" + exprText(x.X)
	case *ast.ParenExpr:
		return exprText(x.X)
	}
	return fmt.Sprintf("%T", e)
}


// mapLiterals: name -> sorted key expressions, for every variable of the file (package level) or of the
// function that is initialised with a map composite literal
func mapLiterals(f *ast.File, fd *ast.FuncDecl) map[string][]string {
	out := map[string][]string{}
	add := func(name string, e ast.Expr) {
		cl, ok := e.(*ast.CompositeLit)
		if !ok {
			return
		}
		if _, ok := cl.Type.(*ast.MapType); !ok {
			return
		}
		var keys []string
		for _, el := range cl.Elts {
			if kv, ok := el.(*ast.KeyValueExpr); ok {
				keys = append(keys, exprText(kv.Key))
			}
		}
		sort.Strings(keys)
		out[name] = keys
	}
	for _, d := range f.Decls {
		if gd, ok := d.(*ast.GenDecl); ok && gd.Tok == token.VAR {
			for _, sp := range gd.Specs {
				if vs, ok := sp.(*ast.ValueSpec); ok {
					for i, n := range vs.Names {
						if i < len(vs.Values) {
							add(n.Name, vs.Values[i])
						}
					}
				}
			}
		}
	}
	ast.Inspect(fd.Body, func(n ast.Node) bool {
		switch x := n.(type) {
		case *ast.AssignStmt:
			for i, l := range x.Lhs {
				if id, ok := l.(*ast.Ident); ok && i < len(x.Rhs) {
					add(id.Name, x.Rhs[i])
				}
			}
		case *ast.DeclStmt:
			if gd, ok := x.Decl.(*ast.GenDecl); ok {
				for _, sp := range gd.Specs {
					if vs, ok := sp.(*ast.ValueSpec); ok {
						for i, n := range vs.Names {
							if i < len(vs.Values) {
								add(n.Name, vs.Values[i])
							}
						}
					}
				}
			}
		}
		return true
	})
	return out
}
