package main

import (
	"fmt"
	"go/ast"
	"go/parser"
	"go/token"
	"io/fs"
	"path/filepath"
	"sort"
	"strconv"
	"strings"
)

func init() { gens["ErrFormats"] = errFormats }

// errFormats extracts (AST): the Code constants of errs/code.go with their values, the errorFormat map
// (constant name -> format string), and every call X.F(args...) / errs.X.F(args...) in non-test files of
// the repository with its argument count (a spread call f(xs...) is recorded with count None).
func errFormats() (string, error) {
	fset := token.NewFileSet()
	f, err := parser.ParseFile(fset, filepath.Join(repo, "errs", "code.go"), nil, 0)
	if err != nil {
		return "", err
	}
	codes := map[string]int{}
	var order []string
	formats := map[string]string{}
	for _, d := range f.Decls {
		gd, ok := d.(*ast.GenDecl)
		if !ok {
			continue
		}
		switch gd.Tok {
		case token.CONST:
			for _, s := range gd.Specs {
				vs := s.(*ast.ValueSpec)
				id, ok := vs.Type.(*ast.Ident)
				if !ok || id.Name != "Code" {
					continue
				}
				for i, n := range vs.Names {
					if i >= len(vs.Values) {
						return "", fmt.Errorf("code %s without literal value", n.Name)
					}
					lit, ok := vs.Values[i].(*ast.BasicLit)
					if !ok || lit.Kind != token.INT {
						return "", fmt.Errorf("code %s is not an integer literal", n.Name)
					}
					v, err := strconv.Atoi(lit.Value)
					if err != nil {
						return "", err
					}
					codes[n.Name] = v
					order = append(order, n.Name)
				}
			}
		case token.VAR:
			for _, s := range gd.Specs {
				vs := s.(*ast.ValueSpec)
				if len(vs.Names) != 1 || vs.Names[0].Name != "errorFormat" || len(vs.Values) != 1 {
					continue
				}
				cl, ok := vs.Values[0].(*ast.CompositeLit)
				if !ok {
					return "", fmt.Errorf("errorFormat is not a composite literal")
				}
				for _, e := range cl.Elts {
					kv := e.(*ast.KeyValueExpr)
					k, ok := kv.Key.(*ast.Ident)
					if !ok {
						return "", fmt.Errorf("errorFormat key is not an identifier")
					}
					v, err := stringConst(kv.Value)
					if err != nil {
						return "", fmt.Errorf("errorFormat[%s]: %v", k.Name, err)
					}
					formats[k.Name] = v
				}
			}
		}
	}
	if len(codes) == 0 || len(formats) == 0 {
		return "", fmt.Errorf("codes or formats not found")
	}

	type call struct {
		where, name string
		nargs       int // -1 = spread
	}
	var calls []call
	err = filepath.WalkDir(repo, func(p string, d fs.DirEntry, err error) error {
		if err != nil {
			return err
		}
		if d.IsDir() {
			if d.Name() == ".git" || d.Name() == "testdata" {
				return filepath.SkipDir
			}
			return nil
		}
		if !strings.HasSuffix(p, ".go") || strings.HasSuffix(p, "_test.go") {
			return nil
		}
		pf, err := parser.ParseFile(fset, p, nil, 0)
		if err != nil {
			return err
		}
		ast.Inspect(pf, func(n ast.Node) bool {
			ce, ok := n.(*ast.CallExpr)
			if !ok {
				return true
			}
			sel, ok := ce.Fun.(*ast.SelectorExpr)
			if !ok || sel.Sel.Name != "F" {
				return true
			}
			name := ""
			switch x := sel.X.(type) {
			case *ast.Ident:
				name = x.Name
			case *ast.SelectorExpr:
				name = x.Sel.Name
			}
			if _, ok := codes[name]; !ok {
				return true // a local variable of type Code: cannot be resolved statically; listed separately below
			}
			n2 := len(ce.Args)
			if ce.Ellipsis.IsValid() {
				n2 = -1
			}
			rel, _ := filepath.Rel(repo, p)
			calls = append(calls, call{fmt.Sprintf("%s:%d", rel, fset.Position(ce.Pos()).Line), name, n2})
			return true
		})
		return nil
	})
	if err != nil {
		return "", err
	}
	sort.Slice(calls, func(i, j int) bool { return calls[i].where < calls[j].where })

	var b strings.Builder
	b.WriteString("From Coq Require Import String List NArith Bool.\nImport ListNotations.\nLocal Open Scope string_scope.\n\n")
	// error codes: the constants of type Code that are named Err..., have a message or are raised somewhere; other constants
	// of that type (bounds of a range of codes and the like) are not diagnostics and are listed apart
	raised := map[string]bool{}
	for _, c := range calls {
		raised[c.name] = true
	}
	var codeNames, otherNames []string
	for _, n := range order {
		if _, hasFormat := formats[n]; strings.HasPrefix(n, "Err") || hasFormat || raised[n] {
			codeNames = append(codeNames, n)
		} else {
			otherNames = append(otherNames, n)
		}
	}
	order = codeNames
	b.WriteString("(* errs/code.go: constants of type Code that are not error codes (name) *)\nDefinition other_code_constants : list string := " + qlist(otherNames) + ".\n\n")
	b.WriteString("(* errs/code.go: Code constants (name, value) *)\nDefinition err_codes : list (string * N) := [\n")
	for i, n := range order {
		sep := ";"
		if i == len(order)-1 {
			sep = ""
		}
		fmt.Fprintf(&b, "  (%s, %d%%N)%s\n", qs(n), codes[n], sep)
	}
	b.WriteString("].\n\n(* errorFormat: (constant name, number of %% in the format, verbs used) *)\nDefinition err_formats : list (string * N * list string) := [\n")
	var fnames []string
	for n := range formats {
		fnames = append(fnames, n)
	}
	sort.Strings(fnames)
	for i, n := range fnames {
		sep := ";"
		if i == len(fnames)-1 {
			sep = ""
		}
		fmt.Fprintf(&b, "  (%s, %d%%N, %s)%s\n", qs(n), strings.Count(formats[n], "%"), qlist(verbs(formats[n])), sep)
	}
	b.WriteString("].\n\n(* every call Err....F(args) outside test files: (file:line, constant name, Some nargs | None for a spread call) *)\nDefinition err_calls : list (string * string * option N) := [\n")
	for i, c := range calls {
		sep := ";"
		if i == len(calls)-1 {
			sep = ""
		}
		na := "None"
		if c.nargs >= 0 {
			na = fmt.Sprintf("Some %d%%N", c.nargs)
		}
		fmt.Fprintf(&b, "  (%s, %s, %s)%s\n", qs(c.where), qs(c.name), na, sep)
	}
	b.WriteString("].\n")
	return b.String(), nil
}

func verbs(f string) []string {
	var vs []string
	for i := 0; i < len(f); i++ {
		if f[i] == '%' && i+1 < len(f) {
			vs = append(vs, f[i:i+2])
			i++
		}
	}
	return vs
}

func stringConst(e ast.Expr) (string, error) {
	switch x := e.(type) {
	case *ast.BasicLit:
		if x.Kind == token.STRING {
			return strconv.Unquote(x.Value)
		}
	case *ast.BinaryExpr:
		if x.Op == token.ADD {
			a, err := stringConst(x.X)
			if err != nil {
				return "", err
			}
			b, err := stringConst(x.Y)
			if err != nil {
				return "", err
			}
			return a + b, nil
		}
	case *ast.ParenExpr:
		return stringConst(x.X)
	}
	return "", fmt.Errorf("not a string constant: %T", e)
}
