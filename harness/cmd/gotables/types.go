package main

import (
	"fmt"
	"go/ast"
	"go/parser"
	"go/token"
	"path/filepath"
	"strconv"
	"strings"

	schema "github.com/jsightapi/jsight-schema-core"
	jbytes "github.com/jsightapi/jsight-schema-core/bytes"
	"github.com/jsightapi/jsight-schema-core/json"
)

func init() { gens["TypeTables"] = typeTables }

// constsOfType returns (name, value) of every string constant declared with the given type.
func constsOfType(f *ast.File, typ string) ([][2]string, error) {
	var res [][2]string
	for _, d := range f.Decls {
		gd, ok := d.(*ast.GenDecl)
		if !ok || gd.Tok != token.CONST {
			continue
		}
		for _, s := range gd.Specs {
			vs := s.(*ast.ValueSpec)
			id, ok := vs.Type.(*ast.Ident)
			if !ok || id.Name != typ {
				continue
			}
			for i, n := range vs.Names {
				if i >= len(vs.Values) {
					return nil, fmt.Errorf("constant %s has no literal value", n.Name)
				}
				lit, ok := vs.Values[i].(*ast.BasicLit)
				if !ok || lit.Kind != token.STRING {
					return nil, fmt.Errorf("constant %s is not a string literal", n.Name)
				}
				v, err := strconv.Unquote(lit.Value)
				if err != nil {
					return nil, err
				}
				res = append(res, [2]string{n.Name, v})
			}
		}
	}
	return res, nil
}

func typeTables() (string, error) {
	fset := token.NewFileSet()
	f, err := parser.ParseFile(fset, filepath.Join(repo, "type.go"), nil, 0)
	if err != nil {
		return "", err
	}
	consts, err := constsOfType(f, "SchemaType")
	if err != nil {
		return "", err
	}
	if len(consts) == 0 {
		return "", fmt.Errorf("no SchemaType constants found")
	}
	byName := map[string]string{}
	var types []string
	for _, c := range consts {
		byName[c[0]] = c[1]
		types = append(types, c[1])
	}

	// keys of the map literal inside IsValidType (AST)
	var validKeys []string
	found := false
	for _, d := range f.Decls {
		fd, ok := d.(*ast.FuncDecl)
		if !ok || fd.Name.Name != "IsValidType" {
			continue
		}
		var ierr error
		ast.Inspect(fd, func(n ast.Node) bool {
			cl, ok := n.(*ast.CompositeLit)
			if !ok {
				return true
			}
			if _, ok := cl.Type.(*ast.MapType); !ok {
				return true
			}
			found = true
			for _, e := range cl.Elts {
				kv, ok := e.(*ast.KeyValueExpr)
				if !ok {
					ierr = fmt.Errorf("IsValidType: element without key")
					return false
				}
				k, err := resolveStringExpr(kv.Key, byName)
				if err != nil {
					ierr = err
					return false
				}
				validKeys = append(validKeys, k)
			}
			return false
		})
		if ierr != nil {
			return "", ierr
		}
		if !found {
			// the same set written as a switch: the expressions of the case clauses that return true
			ast.Inspect(fd, func(n ast.Node) bool {
				cc, ok := n.(*ast.CaseClause)
				if !ok || len(cc.List) == 0 || len(cc.Body) != 1 {
					return true
				}
				rs, ok := cc.Body[0].(*ast.ReturnStmt)
				if !ok || len(rs.Results) != 1 {
					return true
				}
				if id, ok := rs.Results[0].(*ast.Ident); !ok || id.Name != "true" {
					return true
				}
				for _, e := range cc.List {
					k, err := resolveStringExpr(e, byName)
					if err != nil {
						ierr = err
						return false
					}
					validKeys = append(validKeys, k)
				}
				found = true
				return true
			})
			if ierr != nil {
				return "", ierr
			}
		}
		if !found {
			// the same set kept in a package-level map that the function only looks up: `var x = map[..]..{..}`, `x[s]`
			var names []string
			ast.Inspect(fd, func(n ast.Node) bool {
				if ix, ok := n.(*ast.IndexExpr); ok {
					if id, ok := ix.X.(*ast.Ident); ok {
						names = append(names, id.Name)
					}
				}
				return true
			})
			for _, d2 := range f.Decls {
				gd, ok := d2.(*ast.GenDecl)
				if !ok || gd.Tok != token.VAR {
					continue
				}
				for _, sp := range gd.Specs {
					vs, ok := sp.(*ast.ValueSpec)
					if !ok || len(vs.Names) != 1 || len(vs.Values) != 1 {
						continue
					}
					used := false
					for _, nm := range names {
						if nm == vs.Names[0].Name {
							used = true
						}
					}
					cl, ok := vs.Values[0].(*ast.CompositeLit)
					if !used || !ok {
						continue
					}
					if _, ok := cl.Type.(*ast.MapType); !ok {
						continue
					}
					for _, e := range cl.Elts {
						kv, ok := e.(*ast.KeyValueExpr)
						if !ok {
							return "", fmt.Errorf("IsValidType: element without key in %s", vs.Names[0].Name)
						}
						k, err := resolveStringExpr(kv.Key, byName)
						if err != nil {
							return "", err
						}
						validKeys = append(validKeys, k)
					}
					found = true
				}
			}
		}
	}
	if !found {
		return "", fmt.Errorf("IsValidType: no map literal, no switch with clauses returning true and no package-level map it looks up (function rewritten?)")
	}

	var b strings.Builder
	b.WriteString("From Coq Require Import String List NArith Bool.\nImport ListNotations.\nLocal Open Scope string_scope.\n\n")
	b.WriteString("(* constants of type SchemaType declared in type.go (AST) *)\n")
	fmt.Fprintf(&b, "Definition schema_types : list string := %s.\n\n", qlist(types))
	b.WriteString("(* the names IsValidType lists: keys of its map literal (in the function or in a package-level map it looks up), or expressions of its case clauses that return true (AST) *)\n")
	fmt.Fprintf(&b, "Definition valid_keys : list string := %s.\n\n", qlist(validKeys))

	// evaluation of IsValidType on probes: the vocabulary and near misses
	var probes []string
	seen := map[string]bool{}
	add := func(s string) {
		if !seen[s] {
			seen[s] = true
			probes = append(probes, s)
		}
	}
	for _, t := range types {
		add(t)
		if t == "" {
			continue
		}
		add(strings.ToUpper(t))
		add(strings.ToUpper(t[:1]) + t[1:])
		add(t[:len(t)-1])
		add(t + "s")
		add(" " + t)
		add(t + " ")
		add("@" + t)
	}
	for _, s := range []string{"number", "int", "bool", "str", "double", "undefined", "reference", "annotation", "invalid", "regex", "or"} {
		add(s)
	}
	b.WriteString("(* IsValidType evaluated on the vocabulary and near misses *)\nDefinition valid_probes : list (string * bool) := [\n")
	for i, p := range probes {
		sep := ";"
		if i == len(probes)-1 {
			sep = ""
		}
		fmt.Fprintf(&b, "  (%s, %s)%s\n", qs(p), cbool(schema.IsValidType(p)), sep)
	}
	b.WriteString("].\n\n")

	b.WriteString("(* IsEqualSoft evaluated on all pairs: for each type the list of types it is softly equal to *)\nDefinition soft_rows : list (string * list string) := [\n")
	for i, t := range types {
		var row []string
		for _, x := range types {
			if schema.SchemaType(t).IsEqualSoft(schema.SchemaType(x)) {
				row = append(row, x)
			}
		}
		sep := ";"
		if i == len(types)-1 {
			sep = ""
		}
		fmt.Fprintf(&b, "  (%s, %s)%s\n", qs(t), qlist(row), sep)
	}
	b.WriteString("].\n\n")

	b.WriteString("(* SchemaType.ToTokenType and IsScalar evaluated on every type *)\nDefinition stype_token : list (string * string) := [\n")
	for i, t := range types {
		sep := ";"
		if i == len(types)-1 {
			sep = ""
		}
		fmt.Fprintf(&b, "  (%s, %s)%s\n", qs(t), qs(schema.SchemaType(t).ToTokenType()), sep)
	}
	b.WriteString("].\nDefinition stype_scalar : list (string * bool) := [\n")
	for i, t := range types {
		sep := ";"
		if i == len(types)-1 {
			sep = ""
		}
		fmt.Fprintf(&b, "  (%s, %s)%s\n", qs(t), cbool(schema.SchemaType(t).IsScalar()), sep)
	}
	b.WriteString("].\n\n")

	// JSON types: the iota block of json/json_type.go
	jf, err := parser.ParseFile(fset, filepath.Join(repo, "json", "json_type.go"), nil, 0)
	if err != nil {
		return "", err
	}
	njson := 0
	for _, d := range jf.Decls {
		gd, ok := d.(*ast.GenDecl)
		if !ok || gd.Tok != token.CONST {
			continue
		}
		isType := false
		cnt := 0
		for _, s := range gd.Specs {
			vs := s.(*ast.ValueSpec)
			if id, ok := vs.Type.(*ast.Ident); ok && id.Name == "Type" {
				isType = true
			}
			cnt += len(vs.Names)
		}
		if isType {
			njson = cnt
		}
	}
	if njson == 0 {
		return "", fmt.Errorf("json.Type iota block not found")
	}
	b.WriteString("(* json.Type values 0..n-1: (value, String(), ToTokenType(), IsLiteralType()) *)\nDefinition json_types : list (N * string * string * bool) := [\n")
	for i := 0; i < njson; i++ {
		t := json.Type(i)
		sep := ";"
		if i == njson-1 {
			sep = ""
		}
		fmt.Fprintf(&b, "  (%d%%N, %s, %s, %s)%s\n", i, qs(t.String()), qs(t.ToTokenType()), cbool(t.IsLiteralType()), sep)
	}
	b.WriteString("].\n\n")
	b.WriteString("(* json.NewJsonType evaluated on every schema type name (None = panic) *)\nDefinition new_json_type : list (string * option N) := [\n")
	for i, t := range types {
		sep := ";"
		if i == len(types)-1 {
			sep = ""
		}
		fmt.Fprintf(&b, "  (%s, %s)%s\n", qs(t), newJSONType(t), sep)
	}
	b.WriteString("].\n")
	return b.String(), nil
}

func newJSONType(s string) (res string) {
	defer func() {
		if r := recover(); r != nil {
			res = "None"
		}
	}()
	return fmt.Sprintf("Some %d%%N", json.NewJsonType(jbytes.NewBytes(s)))
}

// resolveStringExpr evaluates string(ConstName), ConstName or a string literal.
func resolveStringExpr(e ast.Expr, consts map[string]string) (string, error) {
	switch x := e.(type) {
	case *ast.BasicLit:
		if x.Kind == token.STRING {
			return strconv.Unquote(x.Value)
		}
	case *ast.Ident:
		if v, ok := consts[x.Name]; ok {
			return v, nil
		}
	case *ast.CallExpr:
		if id, ok := x.Fun.(*ast.Ident); ok && id.Name == "string" && len(x.Args) == 1 {
			return resolveStringExpr(x.Args[0], consts)
		}
	case *ast.ParenExpr:
		return resolveStringExpr(x.X, consts)
	}
	return "", fmt.Errorf("cannot evaluate expression of kind %T", e)
}
