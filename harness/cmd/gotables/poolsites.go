package main

import (
	"fmt"
	"go/ast"
	"go/parser"
	"go/token"
	"io/fs"
	"path/filepath"
	"sort"
	"strings"
)

func init() { gens["PoolSites"] = poolSites }

// poolSites lists (AST) every function that takes a buffer out of a BufferPool / sync.Pool and, for each of its
// return statements, whether a returned expression is the pooled buffer's own storage (x.Bytes() of the pooled
// variable, not wrapped in a copying append/string conversion) and whether the Put is deferred.
// It also lists the fields of loader.loader and the fields assigned in loader.reset().
func poolSites() (string, error) {
	fset := token.NewFileSet()
	type site struct {
		where, fn, poolvar string
		returns            []bool // true = alias
		deferredPut        bool
		gets, puts         int // Get and Put call expressions in the function body (closures included)
	}
	var sites []site
	var outside []string
	err := filepath.WalkDir(repo, func(p string, d fs.DirEntry, err error) error {
		if err != nil {
			return err
		}
		if d.IsDir() {
			if d.Name() == ".git" || d.Name() == "testdata" {
				return filepath.SkipDir
			}
			return nil
		}
		if !strings.HasSuffix(p, ".go") || strings.HasSuffix(p, "_test.go") {
			return nil
		}
		f, err := parser.ParseFile(fset, p, nil, 0)
		if err != nil {
			return err
		}
		for _, decl := range f.Decls {
			fd, ok := decl.(*ast.FuncDecl)
			if !ok || fd.Body == nil {
				continue
			}
			// x := <something>Pool.Get()  /  x := pool.Get().(*T)
			poolvar := ""
			ast.Inspect(fd.Body, func(n ast.Node) bool {
				as, ok := n.(*ast.AssignStmt)
				if !ok || len(as.Lhs) != 1 || len(as.Rhs) != 1 {
					return true
				}
				if isPoolGet(as.Rhs[0]) {
					if id, ok := as.Lhs[0].(*ast.Ident); ok {
						poolvar = id.Name
					}
				}
				return true
			})
			if poolvar == "" {
				// Get/Put calls outside the inventoried functions (the BufferPool wrapper itself is expected here)
				rel, _ := filepath.Rel(repo, p)
				ast.Inspect(fd.Body, func(n ast.Node) bool {
					if ce, ok := n.(*ast.CallExpr); ok {
						if isPoolPut(ce) {
							outside = append(outside, rel+"|"+fd.Name.Name+"|Put")
						}
						if isPoolGet(ce) {
							outside = append(outside, rel+"|"+fd.Name.Name+"|Get")
						}
					}
					return true
				})
				continue
			}
			rel, _ := filepath.Rel(repo, p)
			s := site{where: fmt.Sprintf("%s:%d", rel, fset.Position(fd.Pos()).Line), fn: fd.Name.Name, poolvar: poolvar}
			ast.Inspect(fd.Body, func(n ast.Node) bool {
				switch x := n.(type) {
				case *ast.CallExpr:
					if isPoolPut(x) {
						s.puts++
					}
					if isPoolGet(x) {
						s.gets++
					}
				}
				return true
			})
			ast.Inspect(fd.Body, func(n ast.Node) bool {
				switch x := n.(type) {
				case *ast.FuncLit:
					// a deferred closure may contain the Put
					ast.Inspect(x.Body, func(m ast.Node) bool {
						if ce, ok := m.(*ast.CallExpr); ok && isPoolPut(ce) {
							s.deferredPut = true
						}
						return true
					})
					return false
				case *ast.DeferStmt:
					if isPoolPut(x.Call) {
						s.deferredPut = true
					}
				case *ast.ReturnStmt:
					alias := false
					for _, r := range x.Results {
						if aliases(r, poolvar) {
							alias = true
						}
					}
					s.returns = append(s.returns, alias)
				}
				return true
			})
			sites = append(sites, s)
		}
		return nil
	})
	if err != nil {
		return "", err
	}
	sort.Slice(sites, func(i, j int) bool { return sites[i].where < sites[j].where })

	// loader fields and reset()
	lf, err := parser.ParseFile(fset, filepath.Join(repo, "notations", "jschema", "loader", "loader.go"), nil, 0)
	if err != nil {
		return "", err
	}
	var fields, resets []string
	for _, decl := range lf.Decls {
		switch d := decl.(type) {
		case *ast.GenDecl:
			for _, sp := range d.Specs {
				ts, ok := sp.(*ast.TypeSpec)
				if !ok || ts.Name.Name != "loader" {
					continue
				}
				st, ok := ts.Type.(*ast.StructType)
				if !ok {
					return "", fmt.Errorf("loader is not a struct")
				}
				for _, f := range st.Fields.List {
					for _, n := range f.Names {
						fields = append(fields, n.Name)
					}
				}
			}
		case *ast.FuncDecl:
			if d.Name.Name != "reset" || d.Recv == nil {
				continue
			}
			recv := d.Recv.List[0].Names[0].Name
			for _, st := range d.Body.List {
				as, ok := st.(*ast.AssignStmt)
				if !ok {
					return "", fmt.Errorf("loader.reset contains a statement that is not an assignment")
				}
				for _, l := range as.Lhs {
					sel, ok := l.(*ast.SelectorExpr)
					if !ok {
						continue
					}
					if id, ok := sel.X.(*ast.Ident); ok && id.Name == recv {
						resets = append(resets, sel.Sel.Name)
					}
				}
			}
		}
	}
	if len(fields) == 0 {
		return "", fmt.Errorf("loader struct not found")
	}

	var b strings.Builder
	b.WriteString("From Coq Require Import String List Bool.\nImport ListNotations.\nLocal Open Scope string_scope.\n\n")
	b.WriteString("(* (file:line, function, alias flag of each return statement, Put deferred) *)\nDefinition pool_sites : list (string * string * list bool * bool) := [\n")
	for i, s := range sites {
		sep := ";"
		if i == len(sites)-1 {
			sep = ""
		}
		rs := make([]string, len(s.returns))
		for k, r := range s.returns {
			rs[k] = cbool(r)
		}
		fmt.Fprintf(&b, "  (%s, %s, [%s], %s)%s\n", qs(s.where), qs(s.fn), strings.Join(rs, "; "), cbool(s.deferredPut), sep)
	}
	b.WriteString("].\n\n")
	b.WriteString("(* (file:line, number of Get call expressions, number of Put call expressions) of the same functions *)\nDefinition pool_balance : list (string * nat * nat) := [\n")
	for i, s := range sites {
		sep := ";"
		if i == len(sites)-1 {
			sep = ""
		}
		fmt.Fprintf(&b, "  (%s, %d, %d)%s\n", qs(s.where), s.gets, s.puts, sep)
	}
	b.WriteString("].\n\n")
	sort.Strings(outside)
	fmt.Fprintf(&b, "(* pool Get/Put call expressions in functions that take no buffer themselves: file|function|call *)\nDefinition pool_calls_elsewhere : list string := %s.\n\n", qlist(outside))
	fmt.Fprintf(&b, "Definition loader_fields : list string := %s.\nDefinition loader_reset_fields : list string := %s.\n", qlist(fields), qlist(resets))
	return b.String(), nil
}

func isPoolGet(e ast.Expr) bool {
	if ta, ok := e.(*ast.TypeAssertExpr); ok {
		e = ta.X
	}
	ce, ok := e.(*ast.CallExpr)
	if !ok {
		return false
	}
	sel, ok := ce.Fun.(*ast.SelectorExpr)
	if !ok || sel.Sel.Name != "Get" || len(ce.Args) != 0 {
		return false
	}
	return strings.Contains(strings.ToLower(exprString(sel.X)), "pool")
}

func isPoolPut(ce *ast.CallExpr) bool {
	sel, ok := ce.Fun.(*ast.SelectorExpr)
	return ok && sel.Sel.Name == "Put" && strings.Contains(strings.ToLower(exprString(sel.X)), "pool")
}

func exprString(e ast.Expr) string {
	switch x := e.(type) {
	case *ast.Ident:
		return x.Name
	case *ast.SelectorExpr:
		return exprString(x.X) + "." + x.Sel.Name
	}
	return ""
}

// aliases: does the expression hand out <poolvar>.Bytes() without copying it?
func aliases(e ast.Expr, poolvar string) bool {
	found := false
	var walk func(n ast.Node) bool
	walk = func(n ast.Node) bool {
		ce, ok := n.(*ast.CallExpr)
		if !ok {
			return true
		}
		// copying forms: append([]byte(nil), x...)  /  string(x)  /  bytes.Clone(x)
		if id, ok := ce.Fun.(*ast.Ident); ok {
			if id.Name == "append" && ce.Ellipsis.IsValid() && len(ce.Args) == 2 && isFreshSlice(ce.Args[0]) {
				return false
			}
			if id.Name == "string" {
				return false
			}
		}
		if sel, ok := ce.Fun.(*ast.SelectorExpr); ok {
			if sel.Sel.Name == "Clone" {
				return false
			}
			if sel.Sel.Name == "Bytes" {
				if id, ok := sel.X.(*ast.Ident); ok && id.Name == poolvar {
					found = true
				}
			}
		}
		return true
	}
	ast.Inspect(e, walk)
	return found
}

func isFreshSlice(e ast.Expr) bool {
	switch x := e.(type) {
	case *ast.CallExpr: // []byte(nil)
		if _, ok := x.Fun.(*ast.ArrayType); ok && len(x.Args) == 1 {
			if id, ok := x.Args[0].(*ast.Ident); ok && id.Name == "nil" {
				return true
			}
		}
	case *ast.CompositeLit: // []byte{}
		if _, ok := x.Type.(*ast.ArrayType); ok && len(x.Elts) == 0 {
			return true
		}
	}
	return false
}
