package main

import (
	"bytes"
	stdjson "encoding/json"
	"fmt"
	"strings"

	schema "github.com/jsightapi/jsight-schema-core"
	"github.com/jsightapi/jsight-schema-core/notations/jschema"
)

// hist <spec> ; <spec> ; ... ;; <op><obj> <op><obj> ...
// ops: c Check, l Len, e Example, a GetAST, u UsedUserTypes, o OpenAPI, n re-create the object,
//      r re-create the root alone (no types registered), t register the project's types on it
// Result: one digest per op, then "stable=1" or "stable=0:<what changed>".
// Every returned slice/struct is kept together with a deep copy taken at return time and is compared
// again after every later operation.
type kept struct {
	what string
	live func() string // renders the live value
	snap string        // rendering at return time
}

func init() {
	handlers["hist"] = func(a []string) string {
		var specs [][]string
		cur := []string{}
		i := 0
		for ; i < len(a); i++ {
			if a[i] == ";;" {
				specs = append(specs, cur)
				i++
				break
			}
			if a[i] == ";" {
				specs = append(specs, cur)
				cur = []string{}
				continue
			}
			cur = append(cur, a[i])
		}
		ops := a[i:]
		shareCache = map[string]interface{}{}
		projs := make([]project, len(specs))
		objs := make([]*jschema.JSchema, len(specs))
		berr := make([]string, len(specs))
		mk := func(k int) {
			p, _ := parseProject(specs[k])
			projs[k] = p
			s, err := p.build()
			objs[k] = s
			berr[k] = ""
			if err != nil {
				berr[k] = "build=" + err.Error()
			}
		}
		for k := range specs {
			mk(k)
		}
		var keeps []kept
		var out []string
		changed := ""
		for step, op := range ops {
			k := int(op[1] - '0')
			s := objs[k]
			r := ""
			if berr[k] != "" && op[0] != 'n' && op[0] != 'r' {
				r = berr[k]
			} else {
				switch op[0] {
				case 'n':
					mk(k)
					r = "new"
				case 'r':
					// the root alone (as a tool does that first creates every schema of a project): types follow with 't'
					p, _ := parseProject(specs[k])
					projs[k] = p
					ns, err := p.newRoot()
					objs[k] = ns
					berr[k] = ""
					if err != nil {
						berr[k] = "build=" + err.Error()
					}
					r = "root"
				case 't':
					if err := projs[k].addTypes(s); err != nil {
						berr[k] = "build=" + err.Error()
					}
					r = "types"
				case 'c':
					r = opCheck(s)
				case 'l':
					r = opLen(s)
				case 'e':
					var raw []byte
					r, raw = opExample(s)
					if raw != nil {
						snap := append([]byte(nil), raw...)
						keeps = append(keeps, kept{fmt.Sprintf("example@step%d", step), func() string { return string(raw) }, string(snap)})
					}
				case 'a':
					var an *schema.ASTNode
					r, an = opAST(s)
					if an != nil {
						j, _ := stdjson.Marshal(*an)
						keeps = append(keeps, kept{fmt.Sprintf("ast@step%d", step), func() string { x, _ := stdjson.Marshal(*an); return string(x) }, string(j)})
					}
				case 'u':
					var u []string
					r, u = opUsed(s)
					if u != nil {
						snap := strings.Join(u, "\x00")
						keeps = append(keeps, kept{fmt.Sprintf("used@step%d", step), func() string { return strings.Join(u, "\x00") }, snap})
					}
				case 'o':
					var raw []byte
					r, raw = opOpenAPI(s)
					if raw != nil {
						snap := append([]byte(nil), raw...)
						keeps = append(keeps, kept{fmt.Sprintf("openapi@step%d", step), func() string { return string(raw) }, string(snap)})
					}
				}
			}
			out = append(out, digest(r))
			if changed == "" {
				for _, kp := range keeps {
					if kp.live() != kp.snap {
						changed = fmt.Sprintf("%s_changed_after_step_%d", kp.what, step)
						break
					}
				}
			}
		}
		st := "stable=1"
		if changed != "" {
			st = "stable=0:" + changed
		}
		_ = bytes.Equal
		return strings.Join(out, " ") + " " + st
	}
	// one operation on a fresh project, digest only (the reference for "same result whatever came before")
	handlers["projd"] = func(a []string) string {
		return digest(handlers["proj"](a))
	}
}
