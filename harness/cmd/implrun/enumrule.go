package main

import (
	"fmt"
	"strings"

	"github.com/jsightapi/jsight-schema-core/notations/jschema"
	"github.com/jsightapi/jsight-schema-core/rules/enum"
)

// enum <hex text>  ->  check=<ok|err:code@idx> len=<n|err..> values=<kind:hexvalue:hexcomment,...|->
//
//	kind: the SchemaType of the value ("comment" for comment-only entries)
//
// enumeq <hex rule text> <hex example>  ->  named=<check;example> inline=<check;example>
//
//	the schema `<example> // {enum: @e}` with the rule registered, against `<example> // {enum: <rule text>}` (one-line rule texts only)
func init() {
	handlers["enum"] = func(a []string) string {
		text := unhex(a[0])
		chk := guard(func() string {
			e := enum.New("enum", text)
			if err := e.Check(); err != nil {
				return errAt(err)
			}
			return "ok"
		})
		ln := guard(func() string {
			e := enum.New("enum", text)
			n, err := e.Len()
			if err != nil {
				return errAt(err)
			}
			return fmt.Sprint(n)
		})
		vals := guard(func() string {
			e := enum.New("enum", text)
			vs, err := e.Values()
			if err != nil {
				return "-"
			}
			out := make([]string, len(vs))
			for i, v := range vs {
				out[i] = string(v.Type) + ":" + hexs(v.Value.Data()) + ":" + hexs([]byte(v.Comment))
			}
			if len(out) == 0 {
				return "none"
			}
			return strings.Join(out, ",")
		})
		// GetAST lists the same entries as Values(): same order, same texts, same kinds
		ast := guard(func() string {
			e := enum.New("enum", text)
			vs, err := e.Values()
			an, err2 := e.GetAST()
			if (err == nil) != (err2 == nil) {
				return "DIFF:verdict"
			}
			if err != nil {
				return "same"
			}
			if len(an.Children) != len(vs) {
				return fmt.Sprintf("DIFF:count_%d_%d", len(an.Children), len(vs))
			}
			for i, v := range vs {
				c := an.Children[i]
				if c.Value != v.Value.String() || c.Comment != v.Comment || (!v.Value.IsNil() && c.SchemaType != string(v.Type)) {
					return fmt.Sprintf("DIFF:entry_%d", i)
				}
			}
			return "same"
		})
		return "check=" + chk + " len=" + ln + " values=" + vals + " ast=" + ast
	}
	handlers["enumeq"] = func(a []string) string {
		rule, ex := unhex(a[0]), unhex(a[1])
		run := func(s *jschema.JSchema) string {
			c := opCheck(s)
			if i := strings.Index(c, "@"); i >= 0 {
				c = c[:i] // the position differs between the two forms by construction
			}
			e, _ := opExample(s)
			if i := strings.Index(e, "@"); i >= 0 && strings.HasPrefix(e, "err") {
				e = e[:i]
			}
			return c + ";" + e
		}
		named := guard(func() string {
			s := jschema.New("root", string(ex)+" // {enum: @e}")
			if err := s.AddRule("@e", enum.New("@e", rule)); err != nil {
				// an invalid rule is refused when it is registered: the same verdict, earlier
				c := errAt(err)
				if i := strings.Index(c, "@"); i >= 0 {
					c = c[:i]
				}
				return c + ";" + c
			}
			return run(s)
		})
		inline := guard(func() string {
			text := string(ex) + " // {enum: " + string(rule) + "}"
			if len(a) > 2 && a[2] == "block" {
				// a rule text of several lines (with // comments) can only stand in a block annotation
				text = string(ex) + " /* {enum: " + string(rule) + "} */"
			}
			s := jschema.New("root", text)
			return run(s)
		})
		return "named=" + named + " inline=" + inline
	}
}
