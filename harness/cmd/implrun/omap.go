package main

import (
	"bytes"
	"encoding/json"
	"errors"
	"fmt"
	"strconv"
	"strings"

	schema "github.com/jsightapi/jsight-schema-core"
	jbytes "github.com/jsightapi/jsight-schema-core/bytes"
	"github.com/jsightapi/jsight-schema-core/notations/jschema"
	"github.com/jsightapi/jsight-schema-core/notations/jschema/ischema"
	"github.com/jsightapi/jsight-schema-core/notations/jschema/ischema/constraint"
)

// A container under test, seen through integer keys and values.
type cont interface {
	Set(k, v int)
	Update(k int, f func(int) int)
	Delete(k int)
	Filter(f func(k, v int) bool)
	Map(f func(k, v int) (int, error)) error
	Find(f func(k, v int) bool) (int, int, bool)
	Each(f func(k, v int) error) error
	Get(k int) (int, bool)
	Has(k int) bool
	Len() int
	Items() string // what iteration / MarshalJSON shows, "k:v,k:v"
}

func atoi(s string) int { n, err := strconv.Atoi(s); must(err); return n }
func must(err error) {
	if err != nil {
		panic(err)
	}
}

func dv(s string) int {
	if s == "" {
		return 0
	}
	return atoi(s)
}

// ---- RuleASTNodes
type ruleC struct{ m *schema.RuleASTNodes }

// key texts: plain, with a control character, with a quote and a backslash, with DEL and a non-BMP non-printable rune -
// what a JSON encoder has to escape its own way
var keyTexts = []string{"k0", "k\x011\a", "k\"2\\", "k\x7f3\U000e0001", "k<4>&\u2028"}

func rk(k int) string {
	if k >= 0 && k < len(keyTexts) {
		return keyTexts[k]
	}
	return "k" + strconv.Itoa(k)
}
func unrk(s string) int {
	for i, t := range keyTexts {
		if t == s {
			return i
		}
	}
	return atoi(s[1:])
}
func rv(v int) schema.RuleASTNode   { return schema.RuleASTNode{Value: strconv.Itoa(v)} }
func unrv(v schema.RuleASTNode) int { return dv(v.Value) }

func (c ruleC) Set(k, v int) { c.m.Set(rk(k), rv(v)) }
func (c ruleC) Update(k int, f func(int) int) {
	c.m.Update(rk(k), func(v schema.RuleASTNode) schema.RuleASTNode { return rv(f(unrv(v))) })
}
func (c ruleC) Delete(k int) { c.m.Delete(rk(k)) }
func (c ruleC) Filter(f func(k, v int) bool) {
	c.m.Filter(func(k string, v schema.RuleASTNode) bool { return f(unrk(k), unrv(v)) })
}
func (c ruleC) Map(f func(k, v int) (int, error)) error {
	return c.m.Map(func(k string, v schema.RuleASTNode) (schema.RuleASTNode, error) {
		x, err := f(unrk(k), unrv(v))
		if err != nil {
			return schema.RuleASTNode{}, err
		}
		return rv(x), nil
	})
}
func (c ruleC) Find(f func(k, v int) bool) (int, int, bool) {
	it, ok := c.m.Find(func(k string, v schema.RuleASTNode) bool { return f(unrk(k), unrv(v)) })
	if !ok {
		return 0, 0, false
	}
	return unrk(it.Key), unrv(it.Value), true
}
func (c ruleC) Each(f func(k, v int) error) error {
	var seq1, seq2 []string
	err := c.m.Each(func(k string, v schema.RuleASTNode) error {
		seq1 = append(seq1, k)
		return f(unrk(k), unrv(v))
	})
	_ = seq2
	return err
}
func (c ruleC) Get(k int) (int, bool) {
	v, ok := c.m.Get(rk(k))
	v2 := c.m.GetValue(rk(k))
	if unrv(v) != unrv(v2) {
		panic("Get/GetValue disagree")
	}
	return unrv(v), ok
}
func (c ruleC) Has(k int) bool { return c.m.Has(rk(k)) }
func (c ruleC) Len() int       { return c.m.Len() }
func (c ruleC) Items() string {
	var a []string
	c.m.EachSafe(func(k string, v schema.RuleASTNode) {
		a = append(a, fmt.Sprintf("%d:%d", unrk(k), unrv(v)))
	})
	viaEach := strings.Join(a, ",")
	b, err := c.m.MarshalJSON()
	must(err)
	viaJSON := jsonItems(b, func(raw json.RawMessage) int {
		var n struct{ Value string }
		must(json.Unmarshal(raw, &n))
		return dv(n.Value)
	})
	if viaEach != viaJSON {
		return "MISMATCH each=" + viaEach + " json=" + viaJSON
	}
	return viaEach
}

// jsonItems checks that b is valid JSON, one object, and returns its members in textual order.
func jsonItems(b []byte, val func(json.RawMessage) int) string {
	if !json.Valid(b) {
		return "INVALIDJSON:" + string(b)
	}
	dec := json.NewDecoder(bytes.NewReader(b))
	t, err := dec.Token()
	must(err)
	if t != json.Delim('{') {
		return "NOTOBJECT"
	}
	var a []string
	for dec.More() {
		kt, err := dec.Token()
		must(err)
		var raw json.RawMessage
		must(dec.Decode(&raw))
		a = append(a, fmt.Sprintf("%d:%d", unrk(kt.(string)), val(raw)))
	}
	return strings.Join(a, ",")
}

// ---- ASTNodes
type astC struct{ m *schema.ASTNodes }

func av(v int) schema.ASTNode   { return schema.ASTNode{Value: strconv.Itoa(v)} }
func unav(v schema.ASTNode) int { return dv(v.Value) }

func (c astC) Set(k, v int) { c.m.Set(rk(k), av(v)) }
func (c astC) Update(k int, f func(int) int) {
	c.m.Update(rk(k), func(v schema.ASTNode) schema.ASTNode { return av(f(unav(v))) })
}
func (c astC) Delete(k int) { c.m.Delete(rk(k)) }
func (c astC) Filter(f func(k, v int) bool) {
	c.m.Filter(func(k string, v schema.ASTNode) bool { return f(unrk(k), unav(v)) })
}
func (c astC) Map(f func(k, v int) (int, error)) error {
	return c.m.Map(func(k string, v schema.ASTNode) (schema.ASTNode, error) {
		x, err := f(unrk(k), unav(v))
		if err != nil {
			return schema.ASTNode{}, err
		}
		return av(x), nil
	})
}
func (c astC) Find(f func(k, v int) bool) (int, int, bool) {
	it, ok := c.m.Find(func(k string, v schema.ASTNode) bool { return f(unrk(k), unav(v)) })
	if !ok {
		return 0, 0, false
	}
	return unrk(it.Key), unav(it.Value), true
}
func (c astC) Each(f func(k, v int) error) error {
	return c.m.Each(func(k string, v schema.ASTNode) error { return f(unrk(k), unav(v)) })
}
func (c astC) Get(k int) (int, bool) {
	v, ok := c.m.Get(rk(k))
	v2 := c.m.GetValue(rk(k))
	if unav(v) != unav(v2) {
		panic("Get/GetValue disagree")
	}
	return unav(v), ok
}
func (c astC) Has(k int) bool { return c.m.Has(rk(k)) }
func (c astC) Len() int       { return c.m.Len() }
func (c astC) Items() string {
	var a []string
	c.m.EachSafe(func(k string, v schema.ASTNode) {
		a = append(a, fmt.Sprintf("%d:%d", unrk(k), unav(v)))
	})
	viaEach := strings.Join(a, ",")
	b, err := c.m.MarshalJSON()
	must(err)
	viaJSON := jsonItems(b, func(raw json.RawMessage) int {
		var n struct{ Value string }
		must(json.Unmarshal(raw, &n))
		return dv(n.Value)
	})
	if viaEach != viaJSON {
		return "MISMATCH each=" + viaEach + " json=" + viaJSON
	}
	return viaEach
}

// ---- ischema.Constraints (keys are constraint types, values MinItems constraints)
type conC struct{ m *ischema.Constraints }

func ck(k int) constraint.Type { return constraint.Type(k) }
func cv(v int) constraint.Constraint {
	return constraint.NewMinItems(jbytes.NewBytes(strconv.Itoa(v)))
}
func uncv(v constraint.Constraint) int {
	if v == nil {
		return 0
	}
	return int(v.(*constraint.MinItems).Value())
}

func (c conC) Set(k, v int) { c.m.Set(ck(k), cv(v)) }
func (c conC) Update(k int, f func(int) int) {
	c.m.Update(ck(k), func(v constraint.Constraint) constraint.Constraint { return cv(f(uncv(v))) })
}
func (c conC) Delete(k int) { c.m.Delete(ck(k)) }
func (c conC) Filter(f func(k, v int) bool) {
	c.m.Filter(func(k constraint.Type, v constraint.Constraint) bool { return f(int(k), uncv(v)) })
}
func (c conC) Map(f func(k, v int) (int, error)) error {
	return c.m.Map(func(k constraint.Type, v constraint.Constraint) (constraint.Constraint, error) {
		x, err := f(int(k), uncv(v))
		if err != nil {
			return nil, err
		}
		return cv(x), nil
	})
}
func (c conC) Find(f func(k, v int) bool) (int, int, bool) {
	it, ok := c.m.Find(func(k constraint.Type, v constraint.Constraint) bool { return f(int(k), uncv(v)) })
	if !ok {
		return 0, 0, false
	}
	return int(it.Key), uncv(it.Value), true
}
func (c conC) Each(f func(k, v int) error) error {
	return c.m.Each(func(k constraint.Type, v constraint.Constraint) error { return f(int(k), uncv(v)) })
}
func (c conC) Get(k int) (int, bool) {
	v, ok := c.m.Get(ck(k))
	v2 := c.m.GetValue(ck(k))
	if uncv(v) != uncv(v2) {
		panic("Get/GetValue disagree")
	}
	return uncv(v), ok
}
func (c conC) Has(k int) bool { return c.m.Has(ck(k)) }
func (c conC) Len() int       { return c.m.Len() }
func (c conC) Items() string {
	var a []string
	c.m.EachSafe(func(k constraint.Type, v constraint.Constraint) {
		a = append(a, fmt.Sprintf("%d:%d", int(k), uncv(v)))
	})
	return strings.Join(a, ",")
}

// ---- callback families (same numbering as coq/Extract/RunOMap.v)
func cbPred(n int) func(k, v int) bool {
	switch n {
	case 0:
		return func(k, v int) bool { return false }
	case 1:
		return func(k, v int) bool { return true }
	case 2:
		return func(k, v int) bool { return k == 0 }
	case 3:
		return func(k, v int) bool { return k != 1 }
	case 4:
		return func(k, v int) bool { return v%2 == 0 }
	}
	return func(k, v int) bool { return k%2 == 0 }
}
func cbUpd(n int) func(int) int {
	switch n {
	case 0:
		return func(v int) int { return v + 1 }
	case 1:
		return func(v int) int { return 7 }
	}
	return func(v int) int { return 2 * v }
}

type cbErr int

func (e cbErr) Error() string { return "e" + strconv.Itoa(int(e)) }

func cbMap(n int) func(k, v int) (int, error) {
	switch n {
	case 0:
		return func(k, v int) (int, error) { return v + 1, nil }
	case 1:
		return func(k, v int) (int, error) {
			if k == 1 {
				return 0, cbErr(5)
			}
			return 2 * v, nil
		}
	case 2:
		return func(k, v int) (int, error) { return 0, cbErr(9) }
	}
	return func(k, v int) (int, error) { return k, nil }
}
func cbEach(n int) func(k, v int) error {
	switch n {
	case 0:
		return func(k, v int) error { return nil }
	case 1:
		return func(k, v int) error {
			if k == 2 {
				return cbErr(3)
			}
			return nil
		}
	}
	return func(k, v int) error {
		if v%2 == 0 {
			return cbErr(v)
		}
		return nil
	}
}

func showErr(err error) string {
	if err == nil {
		return "eN"
	}
	var ce cbErr
	if errors.As(err, &ce) {
		return ce.Error()
	}
	return "e?" + err.Error()
}

func runOps(c cont, a []string) string {
	var out []string
	for i := 0; i < len(a); {
		switch a[i] {
		case "S":
			c.Set(atoi(a[i+1]), atoi(a[i+2]))
			out = append(out, "-")
			i += 3
		case "U":
			c.Update(atoi(a[i+1]), cbUpd(atoi(a[i+2])))
			out = append(out, "-")
			i += 3
		case "D":
			c.Delete(atoi(a[i+1]))
			out = append(out, "-")
			i += 2
		case "F":
			c.Filter(cbPred(atoi(a[i+1])))
			out = append(out, "-")
			i += 2
		case "M":
			out = append(out, showErr(c.Map(cbMap(atoi(a[i+1])))))
			i += 2
		case "I":
			k, v, ok := c.Find(cbPred(atoi(a[i+1])))
			if ok {
				out = append(out, fmt.Sprintf("i%d:%d", k, v))
			} else {
				out = append(out, "iN")
			}
			i += 2
		case "E":
			out = append(out, showErr(c.Each(cbEach(atoi(a[i+1])))))
			i += 2
		case "G":
			v, ok := c.Get(atoi(a[i+1]))
			if ok {
				out = append(out, "v"+strconv.Itoa(v))
			} else {
				out = append(out, "vN")
			}
			i += 2
		case "H":
			if c.Has(atoi(a[i+1])) {
				out = append(out, "b1")
			} else {
				out = append(out, "b0")
			}
			i += 2
		case "L":
			out = append(out, "n"+strconv.Itoa(c.Len()))
			i++
		case "J":
			out = append(out, "j"+c.Items())
			i++
		default:
			return "badcase"
		}
	}
	return strings.Join(out, " ")
}

func init() {
	// "omap" runs the history on all three generated maps; they must agree with each other.
	handlers["omap"] = func(a []string) string {
		r1 := runOps(ruleC{&schema.RuleASTNodes{}}, a)
		r2 := runOps(astC{&schema.ASTNodes{}}, a)
		r3 := runOps(conC{&ischema.Constraints{}}, a)
		if r1 != r2 || r1 != r3 {
			return "DIVERGE rule=[" + r1 + "] ast=[" + r2 + "] constraints=[" + r3 + "]"
		}
		return r1
	}
	handlers["sset"] = func(a []string) string {
		n := atoi(a[0])
		var init []string
		for _, t := range a[1 : 1+n] {
			init = append(init, rk(atoi(t)))
		}
		caller := append([]string(nil), init...)
		s := jschema.NewStringSet(init...)
		var out []string
		rest := a[1+n:]
		for i := 0; i < len(rest); {
			switch rest[i] {
			case "A":
				s.Add(rk(atoi(rest[i+1])))
				out = append(out, "-")
				i += 2
			case "H":
				if s.Has(rk(atoi(rest[i+1]))) {
					out = append(out, "b1")
				} else {
					out = append(out, "b0")
				}
				i += 2
			case "L":
				out = append(out, "n"+strconv.Itoa(s.Len()))
				i++
			case "D":
				var ks []string
				for _, k := range s.Data() {
					ks = append(ks, strconv.Itoa(unrk(k)))
				}
				out = append(out, "d"+strings.Join(ks, ","))
				i++
			default:
				return "badcase"
			}
		}
		// the constructor must not write through the caller's slice
		for i := range caller {
			if caller[i] != init[i] {
				return "CALLER-SLICE-MODIFIED"
			}
		}
		return strings.Join(out, " ")
	}
}
