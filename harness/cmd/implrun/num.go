package main

import (
	"encoding/hex"
	"errors"
	"fmt"
	"strconv"

	jbytes "github.com/jsightapi/jsight-schema-core/bytes"
	"github.com/jsightapi/jsight-schema-core/errs"
	"github.com/jsightapi/jsight-schema-core/json"
	"github.com/jsightapi/jsight-schema-core/kit"
)

func unhex(s string) []byte {
	if s == "-" {
		return []byte{}
	}
	b, err := hex.DecodeString(s)
	must(err)
	return b
}
func hexs(b []byte) string {
	if len(b) == 0 {
		return "-"
	}
	return hex.EncodeToString(b)
}

// errCode extracts the numeric code of a designed diagnostic, or -1.
func errCode(err interface{}) int {
	switch e := err.(type) {
	case kit.JSchemaError:
		return e.ErrCode()
	case *kit.JSchemaError:
		return e.ErrCode()
	case *errs.Err:
		return int(e.Code())
	case errs.Err:
		return int(e.Code())
	case errs.Code:
		return int(e)
	case kit.Error:
		return e.ErrCode()
	case error:
		var k kit.JSchemaError
		if errors.As(e, &k) {
			return k.ErrCode()
		}
		var pe *errs.Err
		if errors.As(e, &pe) {
			return int(pe.Code())
		}
	}
	return -1
}

func b01(b bool) string {
	if b {
		return "1"
	}
	return "0"
}

func init() {
	handlers["num"] = func(a []string) string {
		switch len(a) {
		case 2:
			n, err := json.NewNumber(jbytes.NewBytes(unhex(a[1])))
			if err != nil {
				return "err " + strconv.Itoa(errCode(err))
			}
			return fmt.Sprintf("ok %s %d", hexs([]byte(n.String())), n.LengthOfFractionalPart())
		case 3:
			x, err1 := json.NewNumber(jbytes.NewBytes(unhex(a[1])))
			y, err2 := json.NewNumber(jbytes.NewBytes(unhex(a[2])))
			if err1 != nil || err2 != nil {
				return "notboth"
			}
			return fmt.Sprintf("cmp %d %s %s %s %s %s", x.Cmp(y), b01(x.Equal(y)), b01(x.GreaterThan(y)),
				b01(x.GreaterThanOrEqual(y)), b01(x.LessThan(y)), b01(x.LessThanOrEqual(y)))
		}
		return "badcase"
	}
}
