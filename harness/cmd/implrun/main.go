// implrun runs the real library on case lines (same wire format as ocaml/modelrun):
// one case per line on stdin, one result line per case on stdout.
package main

import (
	"bufio"
	"fmt"
	"os"
	"strings"
)

type handler func(args []string) string

var handlers = map[string]handler{}

func main() {
	in := bufio.NewReaderSize(os.Stdin, 1<<20)
	out := bufio.NewWriterSize(os.Stdout, 1<<20)
	defer out.Flush()
	for {
		line, err := in.ReadString('\n')
		if len(line) > 0 || err == nil {
			line = strings.TrimRight(line, "\n")
			fmt.Fprintln(out, runLine(line))
		}
		if err != nil {
			break
		}
	}
}

func runLine(line string) (res string) {
	toks := strings.Split(line, " ")
	h, ok := handlers[toks[0]]
	if !ok {
		return "badcase"
	}
	defer func() {
		if r := recover(); r != nil {
			res = "panic " + panicClass(r)
		}
	}()
	shareCache = map[string]interface{}{} // shared type objects live for one case line (every line replays alone)
	return h(toks[1:])
}

func panicClass(r interface{}) string {
	s := fmt.Sprint(r)
	switch {
	case strings.Contains(s, "index out of range"), strings.Contains(s, "slice bounds out of range"):
		return "IndexOutOfRange"
	case strings.Contains(s, "makeslice"):
		return "MakesliceRange"
	case strings.Contains(s, "negative Repeat count"):
		return "NegativeRepeat"
	case strings.Contains(s, "nil pointer"):
		return "NilDeref"
	}
	return "other:" + strings.ReplaceAll(s, " ", "_")
}
