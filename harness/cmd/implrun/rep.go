package main

import (
	"strconv"
	"strings"
)

func init() {
	// rep <n> <handler> <args...>: the same call n times in one process; all answers must be identical
	handlers["rep"] = func(a []string) string {
		n, _ := strconv.Atoi(a[0])
		h, ok := handlers[a[1]]
		if !ok {
			return "badcase"
		}
		first := ""
		for i := 0; i < n; i++ {
			r := guard(func() string { return h(a[2:]) })
			if i == 0 {
				first = r
			} else if r != first {
				return "NONDET " + strings.ReplaceAll(first, " ", "_") + " <> " + strings.ReplaceAll(r, " ", "_")
			}
		}
		return first
	}
	// enumeration rule, all public results
	handlers["enumrule"] = func(a []string) string {
		return workOwnVerbose("E", a)
	}
}

func workOwnVerbose(kind string, spec []string) string {
	return workOwn(kind, spec)
}
