package main

import (
	"encoding/hex"
	stdjson "encoding/json"
	"fmt"
	"regexp"
	"strconv"

	"github.com/jsightapi/jsight-schema-core/notations/jschema"
	"github.com/jsightapi/jsight-schema-core/notations/regex"
	"github.com/jsightapi/jsight-schema-core/openapi"
)

func errAtAny(err error) string {
	if err == nil {
		return "ok"
	}
	return errAt(err)
}

func init() {
	handlers["regex"] = func(a []string) string {
		if a[0] == "R" { // the model's parameter: does regexp.Compile accept this pattern?
			_, err := regexp.Compile(string(unhex(a[1])))
			return b01(err == nil)
		}
		b := unhex(a[0])
		rs := regex.New("r", append([]byte(nil), b...))
		if err := rs.Check(); err != nil {
			return errAt(err)
		}
		p, err := rs.Pattern()
		must(err)
		n, err := rs.Len()
		must(err)
		ast, err := rs.GetAST()
		must(err)
		// OpenAPI pattern
		oas := "?"
		func() {
			defer func() {
				if r := recover(); r != nil {
					oas = "panic"
				}
			}()
			so := openapi.NewSchemaObject(rs)
			if js, err := so.MarshalJSON(); err == nil {
				var m struct{ Pattern *string }
				if stdjson.Unmarshal(js, &m) == nil && m.Pattern != nil {
					oas = hexs([]byte(*m.Pattern))
				}
			}
		}()
		// the example must match the pattern, and a schema referring to the regex type must accept it
		ex, eerr := rs.Example()
		exok := "exerr"
		ref := "-"
		if eerr == nil {
			exok = b01(rs.RE.Match(ex))
			q, _ := stdjson.Marshal(string(ex))
			js := jschema.New("root", string(q)+` // {type: "@r"}`)
			if err := js.AddType("@r", regex.New("r", append([]byte(nil), b...))); err != nil {
				ref = "addtype:" + errAtAny(err)
			} else {
				ref = errAtAny(js.Check())
			}
		}
		return fmt.Sprintf("ok %s %d %s %s ex=%s ref=%s", hexs([]byte(p)), n, hexs([]byte(ast.Value)), oas, exok, ref)
	}
	// regexagain <hex>: ONE regex schema object asked several times, and registered as the type of two schemas:
	// every answer must be the one a fresh object gives (C09: same input, same answer on every repetition;
	// C10: the result does not depend on what was asked before).
	handlers["regexagain"] = func(a []string) string {
		b := unhex(a[0])
		show := func(rs *regex.RSchema) string {
			ex, err := rs.Example()
			n, _ := rs.Len()
			ast, _ := rs.GetAST()
			oas := guard(func() string {
				js, err := openapi.NewSchemaObject(rs).MarshalJSON()
				if err != nil {
					return "err"
				}
				return hexs(js)
			})
			return fmt.Sprintf("%s/%s/%d/%s/%s", errAtAny(err), hexs(ex), n, hexs([]byte(ast.Value)), oas)
		}
		ref := show(regex.New("r", append([]byte(nil), b...)))
		one := regex.New("r", append([]byte(nil), b...))
		for k := 0; k < 3; k++ {
			if got := show(one); got != ref {
				return fmt.Sprintf("DIFF call%d %s vs-fresh %s", k+1, got, ref)
			}
		}
		// the same object as the type of two schemas
		refEx := ""
		for k := 0; k < 3; k++ {
			js := jschema.New("root", `@r`)
			t := one
			if k == 0 {
				t = regex.New("r", append([]byte(nil), b...))
			}
			if err := js.AddType("@r", t); err != nil {
				return "same addtype:" + errAtAny(err)
			}
			ex, err := js.Example()
			got := errAtAny(err) + "/" + hexs(ex)
			if k == 0 {
				refEx = got
			} else if got != refEx {
				return fmt.Sprintf("DIFF astype%d %s vs-fresh %s", k, got, refEx)
			}
		}
		return "same"
	}
	_ = hex.EncodeToString
	_ = strconv.Itoa
}
