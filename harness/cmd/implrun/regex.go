package main

import (
	"encoding/hex"
	stdjson "encoding/json"
	"fmt"
	"regexp"
	"strconv"

	"github.com/jsightapi/jsight-schema-core/notations/jschema"
	"github.com/jsightapi/jsight-schema-core/notations/regex"
	"github.com/jsightapi/jsight-schema-core/openapi"
)

func errAtAny(err error) string {
	if err == nil {
		return "ok"
	}
	return errAt(err)
}

func init() {
	handlers["regex"] = func(a []string) string {
		if a[0] == "R" { // the model's parameter: does regexp.Compile accept this pattern?
			_, err := regexp.Compile(string(unhex(a[1])))
			return b01(err == nil)
		}
		b := unhex(a[0])
		rs := regex.New("r", append([]byte(nil), b...))
		if err := rs.Check(); err != nil {
			return errAt(err)
		}
		p, err := rs.Pattern()
		must(err)
		n, err := rs.Len()
		must(err)
		ast, err := rs.GetAST()
		must(err)
		// OpenAPI pattern
		oas := "?"
		func() {
			defer func() {
				if r := recover(); r != nil {
					oas = "panic"
				}
			}()
			so := openapi.NewSchemaObject(rs)
			if js, err := so.MarshalJSON(); err == nil {
				var m struct{ Pattern *string }
				if stdjson.Unmarshal(js, &m) == nil && m.Pattern != nil {
					oas = hexs([]byte(*m.Pattern))
				}
			}
		}()
		// the example must match the pattern, and a schema referring to the regex type must accept it
		ex, eerr := rs.Example()
		exok := "exerr"
		ref := "-"
		if eerr == nil {
			exok = b01(rs.RE.Match(ex))
			q, _ := stdjson.Marshal(string(ex))
			js := jschema.New("root", string(q)+` // {type: "@r"}`)
			if err := js.AddType("@r", regex.New("r", append([]byte(nil), b...))); err != nil {
				ref = "addtype:" + errAtAny(err)
			} else {
				ref = errAtAny(js.Check())
			}
		}
		return fmt.Sprintf("ok %s %d %s %s ex=%s ref=%s", hexs([]byte(p)), n, hexs([]byte(ast.Value)), oas, exok, ref)
	}
	_ = hex.EncodeToString
	_ = strconv.Itoa
}
