package main

import (
	"sort"
	"strconv"
	"strings"

	schema "github.com/jsightapi/jsight-schema-core"
	jbytes "github.com/jsightapi/jsight-schema-core/bytes"
	"github.com/jsightapi/jsight-schema-core/json"
)

func guessOnce(b []byte) (res string) {
	defer func() {
		if r := recover(); r != nil {
			res = "panic:" + panicClass(r)
		}
	}()
	t, err := schema.GuessSchemaType(append([]byte(nil), b...))
	if err != nil {
		return "err" + strconv.Itoa(errCode(err))
	}
	return string(t)
}

func jsonTypeOnce(b []byte) (res string) {
	defer func() {
		if r := recover(); r != nil {
			if c := errCode(r); c >= 0 {
				res = "err" + strconv.Itoa(c)
			} else {
				res = "panic:" + panicClass(r)
			}
		}
	}()
	return json.Guess(jbytes.NewBytes(append([]byte(nil), b...))).JsonType().String()
}

func unname(s string) string {
	if s == "-" {
		return ""
	}
	return s
}

func init() {
	handlers["guess"] = func(a []string) string {
		switch a[0] {
		case "G":
			b := unhex(a[1])
			// 64 repetitions: the answer must not depend on map iteration order
			set := map[string]bool{}
			jset := map[string]bool{}
			for i := 0; i < 64; i++ {
				set[guessOnce(b)] = true
				jset[jsonTypeOnce(b)] = true
			}
			return "s=" + joinSet(set) + " j=" + joinSet(jset)
		case "V":
			return b01(schema.IsValidType(string(unhex(a[1]))))
		case "S":
			x, y := schema.SchemaType(unname(a[1])), schema.SchemaType(unname(a[2]))
			return b01(x.IsEqualSoft(y)) + " " + b01(y.IsEqualSoft(x))
		}
		return "badcase"
	}
}

func joinSet(m map[string]bool) string {
	var ks []string
	for k := range m {
		ks = append(ks, k)
	}
	sort.Strings(ks)
	return strings.Join(ks, "|")
}
