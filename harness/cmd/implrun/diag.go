package main

import (
	"regexp"
	"fmt"
	"strings"

	"github.com/jsightapi/jsight-schema-core/errs"
	"github.com/jsightapi/jsight-schema-core/formats/json"
	"github.com/jsightapi/jsight-schema-core/kit"
	"github.com/jsightapi/jsight-schema-core/notations/jschema"
	"github.com/jsightapi/jsight-schema-core/notations/regex"
	"github.com/jsightapi/jsight-schema-core/rules/enum"
)

// describeErr renders everything C16 looks at: dynamic type, code, position, line/column, Error() text.
func describeErr(err error) (res string) {
	if err == nil {
		return "ok"
	}
	typ := "raw"
	code, idx, line, col := -1, -1, 0, 0
	switch e := err.(type) {
	case kit.JSchemaError:
		typ = "JSchemaError"
		code = e.ErrCode()
		if e.VerifHasIndex() {
			idx = int(e.Index())
		}
		line, col = int(e.Line()), int(e.Column())
	case *errs.Err:
		typ = "errs"
		code = int(e.Code())
	case errs.Err:
		typ = "errs"
		code = int(e.Code())
	default:
		typ = fmt.Sprintf("raw:%T", err)
		typ = strings.ReplaceAll(typ, " ", "_")
	}
	str := ""
	func() {
		defer func() {
			if r := recover(); r != nil {
				str = "panic:" + panicClass(r)
			}
		}()
		str = hexs([]byte(err.Error()))
	}()
	return fmt.Sprintf("t=%s code=%d idx=%d line=%d col=%d str=%s", typ, code, idx, line, col, str)
}

func runEntry(entry string, b []byte) (res string) {
	defer func() {
		if r := recover(); r != nil {
			res = "panic:" + panicClass(r)
		}
	}()
	c := append([]byte(nil), b...)
	switch entry {
	case "J":
		return describeErr(json.New("doc", c).Check())
	case "T":
		return describeErr(json.New("doc", c, json.AllowTrailingNonSpaceCharacters()).Check())
	case "JL":
		_, err := json.New("doc", c).Len()
		return describeErr(err)
	case "R":
		return describeErr(regex.New("re", c).Check())
	case "E":
		return describeErr(enum.New("rule", c).Check())
	case "EL":
		_, err := enum.New("rule", c).Len()
		return describeErr(err)
	case "S":
		return describeErr(jschema.New("schema", c).Check())
	case "SL":
		_, err := jschema.New("schema", c).Len()
		return describeErr(err)
	case "SA":
		_, err := jschema.New("schema", c).GetAST()
		return describeErr(err)
	case "SE":
		_, err := jschema.New("schema", c).Example()
		return describeErr(err)
	case "SU":
		_, err := jschema.New("schema", c).UsedUserTypes()
		return describeErr(err)
	case "ST":
		// the text is a user type of a schema that refers to it: what the root's Check() reports about the type
		// refers to the type's text
		root := jschema.New("schema", "{\n  \"k\": @a\n}")
		if err := root.AddType("@a", jschema.New("@a", c)); err != nil {
			return describeErr(err)
		}
		return describeErr(root.Check())
	case "SP0", "SP1", "SP2", "SP3", "SP4", "SP5", "SP6":
		// the text is a user type referred to from one of the other reference positions; an error positioned in the root's
		// own text (not the subject here: entry S) is reported without its position
		roots := []string{"1 // {type: \"@a\"}", "1 // {or: [\"@a\", \"string\"]}", "{\n  @a: 1\n}", "[\n  @a\n]",
			"{ // {additionalProperties: \"@a\"}\n}", "{ // {allOf: \"@a\"}\n}", "\"x\" // {or: [{type: \"@a\"}, {type: \"integer\"}]}"}
		root := jschema.New("schema", roots[int(entry[2]-'0')])
		if err := root.AddType("@a", jschema.New("@a", c)); err != nil {
			return describeErr(err)
		}
		err := root.Check()
		res := describeErr(err)
		if je, ok := err.(kit.JSchemaError); ok && je.File() != nil && je.File().Name() == "schema" {
			res = regexp.MustCompile(`idx=-?\d+ line=\d+ col=\d+`).ReplaceAllString(res, "idx=-1 line=0 col=0")
		}
		return res
	case "SI":
		// the text is a type that another registered type inherits from (allOf): what Check() reports about an inherited
		// member refers to the text the member was written in
		root := jschema.New("schema", "@a")
		if err := root.AddType("@a", jschema.New("@a", "{ // {allOf: \"@b\"}\n}")); err != nil {
			return describeErr(err)
		}
		if err := root.AddType("@b", jschema.New("@b", c)); err != nil {
			return describeErr(err)
		}
		return describeErr(root.Check())
	}
	return "badcase"
}

func init() {
	handlers["diag"] = func(a []string) string { return runEntry(a[0], unhex(a[1])) }
}
