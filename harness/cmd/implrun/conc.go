package main

import (
	"fmt"
	"math/rand"
	"runtime"
	"strconv"
	"strings"
	"sync"

	schema "github.com/jsightapi/jsight-schema-core"
	jbytes "github.com/jsightapi/jsight-schema-core/bytes"
	fjson "github.com/jsightapi/jsight-schema-core/formats/json"
	"github.com/jsightapi/jsight-schema-core/json"
	"github.com/jsightapi/jsight-schema-core/notations/jschema"
	"github.com/jsightapi/jsight-schema-core/notations/regex"
	"github.com/jsightapi/jsight-schema-core/openapi"
	"github.com/jsightapi/jsight-schema-core/rules/enum"
)

// One unit of work on objects of its own: returns a digest of everything observable.
func workOwn(kind string, spec []string) string {
	switch kind {
	case "P": // schema project: all operations
		return digest(handlers["proj"](append([]string{"all"}, spec...)))
	case "R":
		b := unhex(spec[0])
		rs := regex.New("r", append([]byte(nil), b...))
		err := rs.Check()
		ex, _ := rs.Example()
		n, _ := rs.Len()
		return digest(fmt.Sprintf("%s %x %d", errAtAny(err), ex, n))
	case "E":
		b := unhex(spec[0])
		e := enum.New("e", append([]byte(nil), b...))
		err := e.Check()
		vs, _ := e.Values()
		n, _ := e.Len()
		return digest(fmt.Sprintf("%s %v %d", errAtAny(err), vs, n))
	case "J":
		b := unhex(spec[0])
		d := fjson.New("d", append([]byte(nil), b...))
		err := d.Check()
		n, _ := d.Len()
		return digest(fmt.Sprintf("%s %d", errAtAny(err), n))
	case "N":
		b := unhex(spec[0])
		n, err := json.NewNumber(jbytes.NewBytes(append([]byte(nil), b...)))
		t, err2 := schema.GuessSchemaType(append([]byte(nil), b...))
		s := ""
		if err == nil {
			s = n.String()
		}
		return digest(fmt.Sprintf("%v %s %v %s", err == nil, s, err2 == nil, t))
	}
	return "badkind"
}

// The six read operations on one shared regex schema object.
func workSharedRegex(s *regex.RSchema, op int) string {
	return digest(guard(func() string {
		switch op % 6 {
		case 0:
			return errAtAny(s.Check())
		case 1:
			n, err := s.Len()
			return fmt.Sprint(n, errAtAny(err))
		case 2:
			ex, err := s.Example()
			return fmt.Sprintf("%x %s", ex, errAtAny(err))
		case 3:
			a, err := s.GetAST()
			return fmt.Sprintf("%s %s %s", a.Value, a.SchemaType, errAtAny(err))
		case 4:
			u, err := s.UsedUserTypes()
			return fmt.Sprint(u, errAtAny(err))
		}
		if s.Check() != nil {
			return "notaccepted"
		}
		js, err := openapi.NewSchemaObject(s).MarshalJSON()
		return fmt.Sprintf("%s %s", js, errAtAny(err))
	}))
}

// The six read operations on one shared schema object.
func workShared(s *jschema.JSchema, op int) string {
	switch op % 6 {
	case 0:
		return digest(opCheck(s))
	case 1:
		return digest(opLen(s))
	case 2:
		r, _ := opExample(s)
		return digest(r)
	case 3:
		r, _ := opAST(s)
		return digest(r)
	case 4:
		r, _ := opUsed(s)
		return digest(r)
	}
	r, _ := opOpenAPI(s)
	return digest(r)
}

func init() {
	// conc own|shared <goroutines> <iterations> <gomaxprocs> <seed> ;; <kind> <spec...> ; <kind> <spec...> ; ...
	handlers["conc"] = func(a []string) string {
		mode := a[0]
		G, _ := strconv.Atoi(a[1])
		iters, _ := strconv.Atoi(a[2])
		procs, _ := strconv.Atoi(a[3])
		seed, _ := strconv.Atoi(a[4])
		old := runtime.GOMAXPROCS(procs)
		defer runtime.GOMAXPROCS(old)
		var units [][]string
		cur := []string{}
		for _, t := range a[6:] {
			if t == ";" {
				units = append(units, cur)
				cur = []string{}
				continue
			}
			cur = append(cur, t)
		}
		units = append(units, cur)
		mism := 0
		first := ""
		var mu sync.Mutex
		note := func(s string) {
			mu.Lock()
			mism++
			if first == "" {
				first = s
			}
			mu.Unlock()
		}
		var wg sync.WaitGroup
		if mode == "own" {
			seq := make([]string, len(units))
			for i, u := range units {
				seq[i] = workOwn(u[0], u[1:])
			}
			for g := 0; g < G; g++ {
				wg.Add(1)
				go func(g int) {
					defer wg.Done()
					rng := rand.New(rand.NewSource(int64(seed*1000 + g)))
					for k := 0; k < iters; k++ {
						i := rng.Intn(len(units))
						if r := workOwn(units[i][0], units[i][1:]); r != seq[i] {
							note(fmt.Sprintf("unit%d:%s!=%s", i, r, seq[i]))
						}
					}
				}(g)
			}
		} else {
			// shared objects: sequential reference on a separate fresh object
			objs := make([]*jschema.JSchema, len(units))
			robjs := make([]*regex.RSchema, len(units))
			seq := make([][6]string, len(units))
			for i, u := range units {
				if u[0] == "R" {
					b := unhex(u[1])
					ref := regex.New("r", append([]byte(nil), b...))
					for op := 0; op < 6; op++ {
						seq[i][op] = workSharedRegex(ref, op)
					}
					robjs[i] = regex.New("r", append([]byte(nil), b...))
					continue
				}
				p, _ := parseProject(u[1:])
				ref, err := p.build()
				if err != nil {
					continue
				}
				for op := 0; op < 6; op++ {
					seq[i][op] = workShared(ref, op)
				}
				objs[i], _ = p.build()
			}
			for g := 0; g < G; g++ {
				wg.Add(1)
				go func(g int) {
					defer wg.Done()
					rng := rand.New(rand.NewSource(int64(seed*1000 + g)))
					for k := 0; k < iters; k++ {
						i := rng.Intn(len(units))
						op := rng.Intn(6)
						if robjs[i] != nil {
							if r := workSharedRegex(robjs[i], op); r != seq[i][op] {
								note(fmt.Sprintf("regexobj%d.op%d:%s!=%s", i, op, r, seq[i][op]))
							}
							continue
						}
						if objs[i] == nil {
							continue
						}
						if r := workShared(objs[i], op); r != seq[i][op] {
							note(fmt.Sprintf("obj%d.op%d:%s!=%s", i, op, r, seq[i][op]))
						}
					}
				}(g)
			}
		}
		wg.Wait()
		return fmt.Sprintf("mismatch=%d first=%s", mism, strings.ReplaceAll(first, " ", "_"))
	}
}
