package main

import (
	"crypto/sha1"
	"encoding/hex"
	stdjson "encoding/json"
	"fmt"
	"sort"
	"strings"

	schema "github.com/jsightapi/jsight-schema-core"
	"github.com/jsightapi/jsight-schema-core/kit"
	"github.com/jsightapi/jsight-schema-core/notations/jschema"
	"github.com/jsightapi/jsight-schema-core/notations/jschema/ischema"
	"github.com/jsightapi/jsight-schema-core/notations/jschema/ischema/constraint"
	"github.com/jsightapi/jsight-schema-core/notations/regex"
	"github.com/jsightapi/jsight-schema-core/openapi"
	"github.com/jsightapi/jsight-schema-core/rules/enum"
)

// A project: root schema text, named types (JSight or regex) in registration order, named enum rules.
type typeDef struct {
	name, kind string // kind J or R
	body       []byte
}
type project struct {
	name  string // file name of the root schema (default "root")
	root  []byte
	types []typeDef
	rules []typeDef
	all   bool // register every type on every type as well (not only on the root)
	nest  bool // register the first type on the root only, the second on the first, ... (a chain of registrations)
	share bool // one object per type and per rule for all the schemas of a history that have the same types and rules
	optdef bool // every schema and type is created with AreKeysOptionalByDefault
}

// parseProject reads: <hex root> {T <hexname> J|R <hexbody>} {E <hexname> <hexbody>} [all]
func parseProject(a []string) (project, []string) {
	p := project{root: unhex(a[0])}
	i := 1
	for i < len(a) {
		switch a[i] {
		case "T":
			p.types = append(p.types, typeDef{string(unhex(a[i+1])), a[i+2], unhex(a[i+3])})
			i += 4
		case "E":
			p.rules = append(p.rules, typeDef{string(unhex(a[i+1])), "E", unhex(a[i+2])})
			i += 3
		case "all":
			p.all = true
			i++
		case "nest":
			p.nest = true
			i++
		case "share":
			p.share = true
			i++
		case "optdef":
			p.optdef = true
			i++
		case "N":
			p.name = string(unhex(a[i+1]))
			i += 2
		default:
			return p, a[i:]
		}
	}
	return p, nil
}

// shareCache holds the type and rule objects of the projects with the flag "share" (reset by the hist handler).
var shareCache = map[string]interface{}{}

// sig: the objects of an `all` project carry registrations of their own, so they are shared between projects with the
// same types and rules only; without `all` an object is its text and nothing else, and is shared by name and text
func (p project) sig() string {
	if !p.all {
		return "-"
	}
	h := sha1.New()
	for _, t := range append(append([]typeDef{}, p.types...), p.rules...) {
		fmt.Fprintf(h, "%s|%s|%x|", t.name, t.kind, t.body)
	}
	fmt.Fprint(h, p.all)
	return hex.EncodeToString(h.Sum(nil))
}

func (p project) rule(r typeDef) *enum.Enum {
	if !p.share {
		return enum.New(r.name, append([]byte(nil), r.body...))
	}
	key := "E|" + r.name + "|" + string(r.body) + "|" + p.sig()
	if e, ok := shareCache[key]; ok {
		return e.(*enum.Enum)
	}
	e := enum.New(r.name, append([]byte(nil), r.body...))
	shareCache[key] = e
	return e
}

func (p project) newSchema(name string, body []byte) (*jschema.JSchema, error) {
	s := jschema.New(name, append([]byte(nil), body...))
	if p.optdef {
		s.AreKeysOptionalByDefault = true
	}
	for _, r := range p.rules {
		if err := s.AddRule(r.name, p.rule(r)); err != nil {
			return s, fmt.Errorf("addrule:%s", errAt(err))
		}
	}
	return s, nil
}

// innerCode: AddType reports a failure of the type's own load as ErrLoadError (706) around the real error's text;
// the innermost "code NNN" of the message is the reason.
func innerCode(err error) string {
	msg := guard(func() string { return err.Error() })
	c := ""
	for {
		i := strings.Index(msg, "code ")
		if i < 0 {
			break
		}
		msg = msg[i+5:]
		j := 0
		for j < len(msg) && msg[j] >= '0' && msg[j] <= '9' {
			j++
		}
		if j > 0 {
			c = msg[:j]
		}
	}
	if c == "" {
		return errAt(err)
	}
	return errAt(err) + "/" + c
}

// build creates the root JSchema with all rules and types registered. The error is the first failing AddRule/AddType.
func (p project) build() (*jschema.JSchema, error) {
	root, err := p.newRoot()
	if err != nil {
		return root, err
	}
	return root, p.addTypes(root)
}

// newRoot creates the root JSchema with its rules only (nothing is loaded yet).
func (p project) newRoot() (*jschema.JSchema, error) {
	rootName := p.name
	if rootName == "" {
		rootName = "root"
	}
	return p.newSchema(rootName, p.root)
}

// addTypes registers the project's types on root.
func (p project) addTypes(root *jschema.JSchema) error {
	mk := func(t typeDef) (schema.Schema, error) {
		if t.kind == "R" {
			return regex.New(t.name, append([]byte(nil), t.body...)), nil
		}
		s, err := p.newSchema(t.name, t.body)
		if err != nil {
			return nil, err
		}
		if p.all {
			for _, u := range p.types {
				var us schema.Schema
				if u.kind == "R" {
					us = regex.New(u.name, append([]byte(nil), u.body...))
				} else {
					js, err := p.newSchema(u.name, u.body)
					if err != nil {
						return nil, err
					}
					us = js
				}
				if err := s.AddType(u.name, us); err != nil {
					return nil, fmt.Errorf("addtype:%s", errAt(err))
				}
			}
		}
		return s, nil
	}
	if p.share {
		objs := make([]schema.Schema, len(p.types))
		fresh := make([]bool, len(p.types))
		for i, t := range p.types {
			key := "T|" + t.name + "|" + t.kind + "|" + string(t.body) + "|" + p.sig()
			if o, ok := shareCache[key]; ok {
				objs[i] = o.(schema.Schema)
				continue
			}
			fresh[i] = true
			if t.kind == "R" {
				objs[i] = regex.New(t.name, append([]byte(nil), t.body...))
			} else {
				js, err := p.newSchema(t.name, t.body)
				if err != nil {
					return err
				}
				objs[i] = js
			}
			shareCache[key] = objs[i]
		}
		if p.all {
			// a failing registration of a type on a type is remembered with the objects (it is asked for once only)
			if e, ok := shareCache["ERR|"+p.sig()]; ok {
				return e.(error)
			}
			for i := range p.types {
				js, ok := objs[i].(*jschema.JSchema)
				if !ok || !fresh[i] {
					continue
				}
				for j, u := range p.types {
					if err := js.AddType(u.name, objs[j]); err != nil {
						e := fmt.Errorf("addtype:%s", errAt(err))
						shareCache["ERR|"+p.sig()] = e
						return e
					}
				}
			}
		}
		for i, t := range p.types {
			if err := root.AddType(t.name, objs[i]); err != nil {
				return fmt.Errorf("addtype:%s", innerCode(err))
			}
		}
		return nil
	}
	if p.nest {
		var next schema.Schema
		for i := len(p.types) - 1; i >= 0; i-- {
			ts, err := mk(p.types[i])
			if err != nil {
				return err
			}
			if next != nil {
				// a regex type registers nothing: the chain ends with it
				if js, ok := ts.(*jschema.JSchema); ok {
					if err := js.AddType(p.types[i+1].name, next); err != nil {
						return fmt.Errorf("addtype:%s", innerCode(err))
					}
				}
			}
			next = ts
		}
		if next == nil {
			return nil
		}
		if err := root.AddType(p.types[0].name, next); err != nil {
			return fmt.Errorf("addtype:%s", innerCode(err))
		}
		return nil
	}
	for _, t := range p.types {
		ts, err := mk(t)
		if err != nil {
			return err
		}
		if err := root.AddType(t.name, ts); err != nil {
			return fmt.Errorf("addtype:%s", innerCode(err))
		}
	}
	return nil
}

func errFull(err error) string {
	if err == nil {
		return "ok"
	}
	s := errAt(err)
	if je, ok := err.(kit.JSchemaError); ok && je.IncorrectUserType() != "" {
		s += ":" + hexs([]byte(je.IncorrectUserType()))
	}
	// the message text is part of the observable result (C09): a short hash of it
	h := sha1.Sum([]byte(guard(func() string { return err.Error() })))
	return s + "~" + hex.EncodeToString(h[:4])
}

func guard(f func() string) (res string) {
	defer func() {
		if r := recover(); r != nil {
			res = "panic:" + panicClass(r)
		}
	}()
	return f()
}

func opCheck(s *jschema.JSchema) string { return guard(func() string { return errFull(s.Check()) }) }
func opLen(s *jschema.JSchema) string {
	return guard(func() string {
		n, err := s.Len()
		if err != nil {
			return errFull(err)
		}
		return fmt.Sprint(n)
	})
}
func opExample(s *jschema.JSchema) (string, []byte) {
	var raw []byte
	r := guard(func() string {
		b, err := s.Example()
		if err != nil {
			return errFull(err)
		}
		raw = b
		return hexs(b)
	})
	return r, raw
}
func opAST(s *jschema.JSchema) (string, *schema.ASTNode) {
	var keep *schema.ASTNode
	r := guard(func() string {
		a, err := s.GetAST()
		if err != nil {
			return errFull(err)
		}
		keep = &a
		j, err := stdjson.Marshal(a)
		if err != nil {
			return "marshalerr"
		}
		return hexs(j)
	})
	return r, keep
}
func opUsed(s *jschema.JSchema) (string, []string) {
	var keep []string
	r := guard(func() string {
		u, err := s.UsedUserTypes()
		if err != nil {
			return errFull(err)
		}
		keep = u
		h := make([]string, len(u))
		for i, x := range u {
			h[i] = hexs([]byte(x))
		}
		if len(h) == 0 {
			return "-"
		}
		return strings.Join(h, ",")
	})
	return r, keep
}
func opOpenAPI(s *jschema.JSchema) (string, []byte) {
	var raw []byte
	r := guard(func() string {
		if err := s.Check(); err != nil {
			return "notaccepted"
		}
		so := openapi.NewSchemaObject(s)
		b, err := so.MarshalJSON()
		if err != nil {
			return errFull(err)
		}
		raw = b
		return hexs(b)
	})
	return r, raw
}

func digest(s string) string {
	if len(s) <= 24 {
		return s
	}
	h := sha1.Sum([]byte(s))
	return "#" + hex.EncodeToString(h[:8])
}

func init() {
	// proj <op> <project...>   op: check len example ast used openapi all
	handlers["proj"] = func(a []string) string {
		p, _ := parseProject(a[1:])
		s, err := p.build()
		if err != nil {
			return "build=" + err.Error()
		}
		switch a[0] {
		case "check":
			return opCheck(s)
		case "len":
			return opLen(s)
		case "example":
			r, _ := opExample(s)
			return r
		case "ast":
			r, _ := opAST(s)
			return r
		case "astlate":
			// GetAST() asked for the first time after every other operation: it reports the source, whatever was asked before
			_ = opCheck(s)
			_, _ = opExample(s)
			_, _ = opOpenAPI(s)
			_, _ = opOpenAPI(s)
			_, _ = opUsed(s)
			r, _ := opAST(s)
			return r
		case "used":
			r, _ := opUsed(s)
			return r
		case "openapi":
			r, _ := opOpenAPI(s)
			return r
		case "all":
			u, _ := opUsed(s)
			c := opCheck(s)
			e, _ := opExample(s)
			as, _ := opAST(s)
			o, _ := opOpenAPI(s)
			r := fmt.Sprintf("check=%s len=%s used=%s example=%s ast=%s openapi=%s", c, opLen(s), u, e, as, o)
			// the same questions asked again of the same object must get the same answers
			if as2, _ := opAST(s); as2 != as {
				r += " again=ast:" + as2
			}
			if o2, _ := opOpenAPI(s); o2 != o {
				r += " again=openapi:" + o2
			}
			return r
		}
		return "badcase"
	}
}

func init() {
	handlers["projmsg"] = func(a []string) string {
		p, _ := parseProject(a)
		s, err := p.build()
		if err != nil {
			return "build=" + err.Error()
		}
		if err := s.Check(); err != nil {
			return strings.ReplaceAll(err.Error(), "\n", "\\n")
		}
		return "ok"
	}
}

// shape of a JSON text: objects {..}, arrays [..], scalars L (members in textual order)
func jsonShape(b []byte) string {
	dec := stdjson.NewDecoder(strings.NewReader(string(b)))
	var sb strings.Builder
	type frame struct {
		obj   bool
		isKey bool
	}
	var st []frame
	for {
		t, err := dec.Token()
		if err != nil {
			break
		}
		if d, ok := t.(stdjson.Delim); ok {
			switch d {
			case '{':
				sb.WriteByte('{')
				st = append(st, frame{true, true})
				continue
			case '[':
				sb.WriteByte('[')
				st = append(st, frame{false, false})
				continue
			case '}':
				sb.WriteByte('}')
			case ']':
				sb.WriteByte(']')
			}
			st = st[:len(st)-1]
			if len(st) > 0 && st[len(st)-1].obj {
				st[len(st)-1].isKey = true
			}
			continue
		}
		if len(st) > 0 && st[len(st)-1].obj && st[len(st)-1].isKey {
			st[len(st)-1].isKey = false
			continue
		}
		if t == nil {
			sb.WriteByte('N') // null
		} else {
			sb.WriteByte('L')
		}
		if len(st) > 0 && st[len(st)-1].obj {
			st[len(st)-1].isKey = true
		}
	}
	return sb.String()
}

func init() {
	// rec <graph ...> || <project spec>: recursion verdict and the shape of the example
	handlers["rec"] = func(a []string) string {
		i := 0
		for i < len(a) && a[i] != "||" {
			i++
		}
		p, _ := parseProject(a[i+1:])
		s, err := p.build()
		if err != nil {
			return "build=" + err.Error()
		}
		c := opCheck(s)
		chk := "ok"
		if strings.HasPrefix(c, "err:104@") {
			chk = "104"
		} else if c != "ok" {
			chk = c
		}
		ex := "-"
		if chk == "ok" {
			r, raw := opExample(s)
			if raw == nil {
				ex = r
			} else if !stdjson.Valid(raw) {
				ex = "INVALIDJSON:" + hexs(raw)
			} else {
				ex = jsonShape(raw)
			}
		}
		return "check=" + chk + " ex=" + ex
	}
}

func init() {
	// allof <graph ...> || <project spec>: verdict of Check, keys of the root object as the compiled schema,
	// Example() and the OpenAPI property listing show them
	handlers["allof"] = func(a []string) string {
		i := 0
		for i < len(a) && a[i] != "||" {
			i++
		}
		p, _ := parseProject(a[i+1:])
		s, err := p.build()
		if err != nil {
			return "build=" + err.Error()
		}
		c := opCheck(s)
		chk := "ok"
		if c != "ok" {
			m := strings.SplitN(strings.TrimPrefix(c, "err:"), "@", 2)
			chk = m[0]
		}
		if chk != "ok" {
			return "check=" + chk + " keys=-"
		}
		// compiled node tree
		var inh []string
		if on, ok := s.Inner.RootNode().(*ischema.ObjectNode); ok {
			for idx, ch := range on.Children() {
				k := on.Key(idx)
				opt := "0"
				if ischema.IsOptionalNode(ch) {
					opt = "1"
				}
				inh = append(inh, fmt.Sprintf("%s:%s:%s", k.Key, opt, ch.InheritedFrom()))
			}
		}
		// Example keys
		deep := ""
		exk := "?"
		if r, raw := opExample(s); raw != nil {
			var ks []string
			dec := stdjson.NewDecoder(strings.NewReader(string(raw)))
			depth := 0
			isKey := false
			for {
				t, err := dec.Token()
				if err != nil {
					break
				}
				if d, ok := t.(stdjson.Delim); ok {
					if d == '{' || d == '[' {
						depth++
						isKey = depth == 1 && d == '{'
					} else {
						depth--
						isKey = depth == 1
					}
					continue
				}
				if depth == 1 && isKey {
					ks = append(ks, t.(string))
					isKey = false
				} else if depth == 1 {
					isKey = true
				}
			}
			exk = strings.Join(ks, ",")
			// every key at every depth (sorted, once each): nested objects come from the inherited types too
			var any interface{}
			if stdjson.Unmarshal(raw, &any) == nil {
				seen := map[string]bool{}
				var walk func(v interface{})
				walk = func(v interface{}) {
					switch x := v.(type) {
					case map[string]interface{}:
						for k, c := range x {
							seen[k] = true
							walk(c)
						}
					case []interface{}:
						for _, c := range x {
							walk(c)
						}
					}
				}
				walk(any)
				var all []string
				for k := range seen {
					all = append(all, k)
				}
				sort.Strings(all)
				deep = strings.Join(all, ",")
			}
		} else {
			exk = "err:" + r
		}
		// OpenAPI property listing
		info := guard(func() string {
			var ks []string
			for _, si := range openapi.Dereference(s) {
				if oi, ok := si.(openapi.ObjectInformer); ok {
					for _, pi := range oi.PropertiesInfos() {
						o := "0"
						if pi.Optional() {
							o = "1"
						}
						ks = append(ks, pi.Key()+":"+o)
					}
				}
			}
			return strings.Join(ks, ",")
		})
		dash := func(s string) string {
			if s == "" {
				return "-"
			}
			return s
		}
		// every object of the compiled schema and of the compiled types: its required keys are its own mandatory members -
		// no more (a key it has no member for), no less
		reqbad := guard(func() string {
			bad := ""
			var walk func(where string, n ischema.Node)
			walk = func(where string, n ischema.Node) {
				switch x := n.(type) {
				case *ischema.ObjectNode:
					want := map[string]bool{}
					for idx, ch := range x.Children() {
						k := x.Key(idx)
						if !k.IsShortcut && !ischema.IsOptionalNode(ch) {
							want[k.Key] = true
						}
						walk(where+"/"+k.Key, ch)
					}
					got := map[string]bool{}
					if c := x.Constraint(constraint.RequiredKeysConstraintType); c != nil {
						if rk, ok := c.(*constraint.RequiredKeys); ok {
							for _, k := range rk.Keys() {
								got[k] = true
							}
						}
					}
					for k := range got {
						if !want[k] && (bad == "" || where+":+"+k < bad) {
							bad = where + ":+" + k
						}
					}
					for k := range want {
						if !got[k] && (bad == "" || where+":-"+k < bad) {
							bad = where + ":-" + k
						}
					}
				case *ischema.ArrayNode:
					for _, ch := range x.Children() {
						walk(where+"/[]", ch)
					}
				}
			}
			if s.Inner.RootNode() != nil {
				walk("root", s.Inner.RootNode())
			}
			var names []string
			for nm := range s.Inner.TypesList() {
				names = append(names, nm)
			}
			sort.Strings(names)
			for _, nm := range names {
				if t := s.Inner.TypesList()[nm]; t.Schema != nil && t.Schema.RootNode() != nil && !strings.HasPrefix(nm, "#") {
					walk(nm, t.Schema.RootNode())
				}
			}
			return bad
		})
		out := "check=ok keys=" + dash(strings.Join(inh, ",")) + " ex=" + dash(exk) + " info=" + dash(info) + " deep=" + dash(deep)
		if reqbad != "" {
			out += " reqbad=" + strings.ReplaceAll(reqbad, " ", "_")
		}
		// the registered types as the compiled root schema knows them: an heir among them has its inherited members too
		tkeys := guard(func() string {
			var names []string
			for nm := range s.Inner.TypesList() {
				names = append(names, nm)
			}
			sort.Strings(names)
			var parts []string
			for _, nm := range names {
				t := s.Inner.TypesList()[nm]
				if strings.HasPrefix(nm, "#") || t.Schema == nil {
					continue
				}
				on, ok := t.Schema.RootNode().(*ischema.ObjectNode)
				if !ok {
					continue
				}
				var ks []string
				for idx, ch := range on.Children() {
					opt := "0"
					if ischema.IsOptionalNode(ch) {
						opt = "1"
					}
					ks = append(ks, fmt.Sprintf("%s:%s:%s", on.Key(idx).Key, opt, ch.InheritedFrom()))
				}
				parts = append(parts, nm+"="+dash(strings.Join(ks, ",")))
			}
			return strings.Join(parts, ";")
		})
		if tkeys != "" {
			out += " tkeys=" + tkeys
		}
		return out
	}
}

// refs <model part> || <project>  ->  used=<n,n,...|-|err> check=<ok|code> missing=<n|-|?>
// type names are @t<N>; `missing` is the name quoted in a "Type ... not found" message
func init() {
	tnum := func(s string) string {
		if strings.HasPrefix(s, "@t") {
			return s[2:]
		}
		return "?" + hexs([]byte(s))
	}
	handlers["refs"] = func(a []string) string {
		i := 0
		for i < len(a) && a[i] != "||" {
			i++
		}
		p, _ := parseProject(a[i+1:])
		s, err := p.build()
		if err != nil {
			return "build=" + err.Error()
		}
		used := guard(func() string {
			u, err := s.UsedUserTypes()
			if err != nil {
				return "err"
			}
			if len(u) == 0 {
				return "-"
			}
			ns := make([]string, len(u))
			for k, x := range u {
				ns[k] = tnum(x)
			}
			return strings.Join(ns, ",")
		})
		chk, missing := "ok", "-"
		r := guard(func() string {
			err := s.Check()
			if err == nil {
				return ""
			}
			msg := err.Error()
			code := "raw"
			if c := errCode(err); c >= 0 {
				code = fmt.Sprint(c)
			}
			chk = code
			if code == "1302" {
				missing = "?"
				if k := strings.Index(msg, `Type "`); k >= 0 {
					rest := msg[k+6:]
					if e := strings.Index(rest, `"`); e >= 0 {
						missing = tnum(rest[:e])
					}
				}
			}
			return ""
		})
		if r != "" {
			chk = r
		}
		// the same question asked of a fresh object for the first time AFTER the other operations: the list is what the
		// text uses, whenever it is asked
		late := guard(func() string {
			s2, err := p.build()
			if err != nil {
				return "same"
			}
			_ = s2.Check()
			_, _ = s2.Example()
			_, _ = s2.GetAST()
			u, err := s2.UsedUserTypes()
			got := "err"
			if err == nil {
				ns := make([]string, len(u))
				for k, x := range u {
					ns[k] = tnum(x)
				}
				got = strings.Join(ns, ",")
				if len(u) == 0 {
					got = "-"
				}
			}
			if got == used {
				return "same"
			}
			return got
		})
		out := "used=" + used + " check=" + chk + " missing=" + missing
		if late != "same" {
			out += " usedlate=" + late
		}
		return out
	}
}
