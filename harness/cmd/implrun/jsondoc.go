package main

import (
	"errors"
	"fmt"
	"io"
	"strings"

	schema "github.com/jsightapi/jsight-schema-core"
	"github.com/jsightapi/jsight-schema-core/formats/json"
	"github.com/jsightapi/jsight-schema-core/kit"
)

// errAt renders an error as err:<code>@<index> (index -1 when the diagnostic carries none).
func errAt(err error) string {
	var je kit.JSchemaError
	if errors.As(err, &je) {
		idx := -1
		if je.VerifHasIndex() {
			idx = int(je.Index())
		}
		return fmt.Sprintf("err:%d@%d", je.ErrCode(), idx)
	}
	c := errCode(err)
	if c < 0 {
		return "rawerr:" + strings.ReplaceAll(err.Error(), " ", "_")
	}
	return fmt.Sprintf("err:%d@-1", c)
}

func init() {
	handlers["json"] = func(a []string) string {
		b := unhex(a[1])
		opts := []json.Option{}
		if a[0] == "1" {
			opts = append(opts, json.AllowTrailingNonSpaceCharacters())
		}
		// lexeme stream through NextLexeme until io.EOF
		d := json.New("doc", append([]byte(nil), b...), opts...)
		var ls []string
		L := ""
		for {
			lex, err := d.NextLexeme()
			if err == nil {
				ls = append(ls, fmt.Sprintf("%d:%d:%d", lex.Type(), lex.Begin(), lex.End()))
				continue
			}
			if errors.Is(err, io.EOF) {
				if lex.File() != nil { // EndTop is delivered together with io.EOF
					ls = append(ls, fmt.Sprintf("%d:%d:%d", lex.Type(), lex.Begin(), lex.End()))
				}
				if len(ls) == 0 {
					L = "-"
				} else {
					L = strings.Join(ls, ",")
				}
			} else {
				L = errAt(err)
			}
			break
		}
		d2 := json.New("doc", append([]byte(nil), b...), opts...)
		C := "ok"
		if err := d2.Check(); err != nil {
			C = errAt(err)
		}
		d3 := json.New("doc", append([]byte(nil), b...), opts...)
		N := ""
		if n, err := d3.Len(); err != nil {
			N = strings.Split(errAt(err), "@")[0] + "@0"
		} else {
			N = fmt.Sprint(n)
		}
		// the verdict does not depend on what the same Document was asked before: Check() after the lexemes were read
		// (to the end or to the error), after Len(), and a second time
		again := ""
		for name, before := range map[string]func(x schema.Document){
			"lexemes": func(x schema.Document) {
				for {
					if _, err := x.NextLexeme(); err != nil {
						return
					}
				}
			},
			"one-lexeme": func(x schema.Document) { _, _ = x.NextLexeme() },
			"len":        func(x schema.Document) { _, _ = x.Len() },
			"check":      func(x schema.Document) { _ = x.Check() },
		} {
			x := json.New("doc", append([]byte(nil), b...), opts...)
			before(x)
			c := "ok"
			if err := x.Check(); err != nil {
				c = errAt(err)
			}
			if c != C && (again == "" || name < again) {
				again = name + ":" + c
			}
		}
		out := "L=" + L + " C=" + C + " N=" + N
		if again != "" {
			out += " AGAIN=" + again
		}
		return out
	}
}
