#!/bin/sh
# Builds the whole framework from files on disk (offline).
set -e
cd "$(dirname "$0")"
exec python3 lib/build.py setup
