(* Generic driver around the extracted model: one case per line on stdin, one result per line. *)
open Model

let rec pos_of_int i =
  if i = 1 then XH
  else if i land 1 = 0 then XO (pos_of_int (i lsr 1))
  else XI (pos_of_int (i lsr 1))
let n_of_int i = if i = 0 then N0 else Npos (pos_of_int i)
let rec int_of_pos = function
  | XH -> 1
  | XO p -> 2 * int_of_pos p
  | XI p -> 2 * int_of_pos p + 1
let int_of_n = function N0 -> 0 | Npos p -> int_of_pos p

let bytes_tbl = Array.init 256 n_of_int

let to_list s =
  let rec go i acc = if i < 0 then acc else go (i - 1) (bytes_tbl.(Char.code s.[i]) :: acc) in
  go (String.length s - 1) []

let of_list l =
  let b = Buffer.create 64 in
  List.iter (fun n -> Buffer.add_char b (Char.chr ((int_of_n n) land 255))) l;
  Buffer.contents b

let () =
  let oc = stdout in
  (try
    while true do
      let line = input_line stdin in
      let r = dispatch (to_list line) in
      output_string oc (of_list r);
      output_char oc '\n'
    done
  with End_of_file -> ());
  flush oc
