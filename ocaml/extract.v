(* Compiled in this directory by lib/build.py: coqc -Q ../coq JS extract.v
   Only ExtrOcamlBasic; N, Z, positive stay Coq's datatypes. *)
Require Extraction.
Require Import ExtrOcamlBasic.
From JS Require Import Extract.Dispatch.
Extraction Language OCaml.
Extraction "model.ml" dispatch.
